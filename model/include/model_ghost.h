// ghost globals owned by the container model (defined in the C contract units)
#ifndef MODEL_GHOST_H
#define MODEL_GHOST_H
#include <cstddef>
extern "C" {
// Lookups are modelled without loops: an index is chosen nondeterministically; "found" is exact, and on "not found"
// (or "found elsewhere") absence of the key is assumed at this ghost index only.  A contract that ties its own
// ghost index to model_g obtains the universal statement (DESIGN.md 3.3); every other index stays unconstrained,
// which over-approximates std::map/std::set (sound for safety proofs).
extern unsigned long model_g_map, model_g_set;
// index chosen by the most recent lookup (== size: not found); lets a contract name the entry that was used
extern unsigned long model_last_map, model_last_set, model_last2_map, model_last2_set, model_last3_map, model_last3_set;
// one-shot witness for the next lookup ((size_t)-1: none, the index is chosen nondeterministically)
extern unsigned long model_pick_map, model_pick_set, model_pick2_map, model_pick2_set, model_pick3_map, model_pick3_set;
extern unsigned long model_hint_map, model_hint_set;
extern unsigned long model_g_vec; // ghost index of vector::erase // witness consumed by the most recent lookup
unsigned long nondet_model_ulong();
}
#endif
