"""Minimal C++ tokenizer used by the extractor.

Produces a flat list of Tok(kind, text, pos) for a source string. Kinds:
  'ws' (whitespace incl. newlines), 'com' (comment), 'pp' (preprocessor line),
  'str', 'chr', 'num', 'id', 'op'.
No regular expressions on raw text are used for structure: brackets are matched on the
token list, so string literals containing commas/braces cannot confuse the rewriter.
"""
from dataclasses import dataclass

OPS3 = ['<<=', '>>=', '...', '->*', '<=>']
OPS2 = ['::', '->', '++', '--', '<<', '>>', '<=', '>=', '==', '!=', '&&', '||', '+=', '-=',
        '*=', '/=', '%=', '&=', '|=', '^=', '.*']


@dataclass
class Tok:
    kind: str
    text: str
    pos: int

    def __repr__(self):
        return f"{self.kind}:{self.text!r}"


def tokenize(src: str):
    toks = []
    i, n = 0, len(src)
    bol = True  # at beginning of line (only whitespace so far)
    while i < n:
        c = src[i]
        if c in ' \t\r\n\f\v':
            j = i
            while j < n and src[j] in ' \t\r\n\f\v':
                if src[j] == '\n':
                    bol = True
                j += 1
            toks.append(Tok('ws', src[i:j], i))
            i = j
            continue
        if c == '/' and i + 1 < n and src[i + 1] == '/':
            j = src.find('\n', i)
            if j < 0:
                j = n
            toks.append(Tok('com', src[i:j], i))
            i = j
            continue
        if c == '/' and i + 1 < n and src[i + 1] == '*':
            j = src.find('*/', i + 2)
            j = n if j < 0 else j + 2
            toks.append(Tok('com', src[i:j], i))
            i = j
            continue
        if c == '#' and bol:
            j = i
            while j < n:
                k = src.find('\n', j)
                if k < 0:
                    j = n
                    break
                # line continuation
                if k > 0 and src[k - 1] == '\\':
                    j = k + 1
                    continue
                j = k
                break
            toks.append(Tok('pp', src[i:j], i))
            i = j
            continue
        bol = False
        if c == '"':
            j = i + 1
            while j < n and src[j] != '"':
                if src[j] == '\\':
                    j += 1
                j += 1
            toks.append(Tok('str', src[i:j + 1], i))
            i = j + 1
            continue
        if c == "'":
            j = i + 1
            while j < n and src[j] != "'":
                if src[j] == '\\':
                    j += 1
                j += 1
            toks.append(Tok('chr', src[i:j + 1], i))
            i = j + 1
            continue
        if c.isdigit() or (c == '.' and i + 1 < n and src[i + 1].isdigit()):
            j = i
            while j < n and (src[j].isalnum() or src[j] in "._'"):
                j += 1
            toks.append(Tok('num', src[i:j], i))
            i = j
            continue
        if c.isalpha() or c == '_':
            j = i
            while j < n and (src[j].isalnum() or src[j] == '_'):
                j += 1
            toks.append(Tok('id', src[i:j], i))
            i = j
            continue
        t3, t2 = src[i:i + 3], src[i:i + 2]
        if t3 in OPS3:
            toks.append(Tok('op', t3, i)); i += 3; continue
        if t2 in OPS2:
            toks.append(Tok('op', t2, i)); i += 2; continue
        toks.append(Tok('op', c, i))
        i += 1
    return toks


def code_indices(toks):
    """indices of tokens that are code (not ws/comment/pp)."""
    return [k for k, t in enumerate(toks) if t.kind not in ('ws', 'com', 'pp')]


OPEN = {'(': ')', '{': '}', '[': ']'}
CLOSE = {v: k for k, v in OPEN.items()}


def match_close(toks, k):
    """toks[k] is an opening bracket; return index of the matching closing bracket."""
    assert toks[k].kind == 'op' and toks[k].text in OPEN, toks[k]
    depth = 0
    for j in range(k, len(toks)):
        t = toks[j]
        if t.kind != 'op':
            continue
        if t.text in OPEN:
            depth += 1
        elif t.text in CLOSE:
            depth -= 1
            if depth == 0:
                return j
    raise ValueError(f"unmatched bracket at {toks[k].pos}")


def untok(toks):
    return ''.join(t.text for t in toks)
