"""Obligation groups of the VM (tier A: step contracts; tier B: debugger functions)."""
import os
from framework import Group, CONTRACTS
import vmunit

STEP_PROPS = ['C01', 'C03', 'C05', 'C06', 'C19', 'C20']

DROPPED_VM = ['libstdc++ headers <optional> <set> <string> <utility> <vector> <map> <climits> (replaced by model/include)',
              'all functions of VM/src/vm.cpp other than the ones named in this group',
              'comments and whitespace are kept; nothing inside the extracted function bodies is changed '
              'except by the logged normalisation rules']


def _step_build(op):
    def build(gw, rl):
        n_layout, ops = vmunit.vm_mirror(gw)
        if op not in ops:
            raise vmunit.ExtractError(f'opcode {op} no longer exists in instr.hpp (have {ops})')
        name, labels = vmunit.build_step_unit(gw, op, rl)
        expected = {('N8', 'VM::executeSingle'): len(labels) - 1}
        rl.check(expected)
        b = {'c_sources': [os.path.join(CONTRACTS, 'vm_step.c')], 'cxx_sources': [os.path.join(gw, name)],
             'entry': 'h_step', 'enforce': [f'w_executeSingle/c_step_{op}'], 'dropped': DROPPED_VM,
             'min_obligations': 50,
             # the cases are loop-free (PREPARE's loop has a loop contract); a loop introduced by a change is unwound a few
             # times so that the run terminates: its effects then fail the contract, or the unwinding assertion fails
             'cbmc_extra': ['--unwind', '12']}
        if op == 'PREPARE_EXEC':
            b['loops_tpl'] = os.path.join(CONTRACTS, 'vm_step.loops.json.in')
        return b
    return build


def _prepare_bounded_build(gw, rl):
    n_layout, ops = vmunit.vm_mirror(gw)
    name, labels = vmunit.build_step_unit(gw, 'PREPARE_EXEC', rl)
    return {'c_sources': [os.path.join(CONTRACTS, 'vm_step.c')], 'cdefs': ['PREPARE_BOUNDED=3'], 'cxx_sources': [os.path.join(gw, name)],
            'entry': 'h_step', 'enforce': ['w_executeSingle/c_step_PREPARE_EXEC'], 'dropped': DROPPED_VM, 'min_obligations': 50,
            'cbmc_extra': ['--unwind', '6']}


def _disasm_build(gw, rl):
    vmunit.vm_mirror(gw)
    name = vmunit.build_disasm_unit(gw, rl)
    return {'c_sources': [os.path.join(CONTRACTS, 'vm_disasm.c')], 'cxx_sources': [os.path.join(gw, name)], 'entry': 'h_disassemble',
            'enforce': ['w_disassemble/c_disassemble'], 'dropped': DROPPED_VM + ['std::ostream is modelled as a sink'], 'min_obligations': 10,
            # signed -> unsigned conversions (negative jump offset + size_t line) are well defined: no --conversion-check here
            'cbmc_flags': ['--unwinding-assertions', '--no-malloc-may-fail', '--unwind', '3']}


def _layout_build(gw, rl):
    n_layout, ops = vmunit.vm_mirror(gw)
    return {'c_sources': [os.path.join(gw, 'layout_c.c')], 'cxx_sources': [os.path.join(gw, 'layout_x.cpp')],
            'entry': 'h_layout', 'dropped': DROPPED_VM, 'min_obligations': n_layout}


def _step_all_build(gw, rl):
    n_layout, ops = vmunit.vm_mirror(gw)
    name, labels = vmunit.build_step_unit(gw, None, rl)
    rl.check({})
    return {'c_sources': [os.path.join(CONTRACTS, 'vm_step.c')], 'cxx_sources': [os.path.join(gw, name)],
            'entry': 'h_step', 'enforce': ['w_executeSingle/c_step_any'], 'dropped': DROPPED_VM, 'min_obligations': 200,
            'loops_tpl': os.path.join(CONTRACTS, 'vm_step.loops.json.in')}


def _execute_build(gw, rl):
    n_layout, ops = vmunit.vm_mirror(gw)
    name = vmunit.build_execute_unit(gw, rl)
    rl.check({('N7', 'VM::execute'): 1})
    return {'c_sources': [os.path.join(CONTRACTS, 'vm_step.c')], 'cdefs': ['AS_CALLEE'], 'cxx_sources': [os.path.join(gw, name)],
            'entry': 'h_execute', 'enforce': ['w_execute/c_execute'], 'replace': ['w_executeSingle/c_step_any'],
            'dropped': DROPPED_VM, 'min_obligations': 30, 'loops_tpl': os.path.join(CONTRACTS, 'vm_execute.loops.json.in'),
            # the body of execute is `while (!w_executeSingle(this));`: no memory access or arithmetic of its own, so only the
            # contract obligations (callee precondition, loop invariant, assigns, postcondition) are generated
            'cbmc_flags': ['--no-standard-checks', '--unwinding-assertions', '--no-malloc-may-fail']}


DBG_PROPS = ['C05', 'C06', 'C17', 'C18']


def _dbg_build(fn, loops=False, redirect=False, cdefs=(), unwind=None):
    def build(gw, rl):
        vmunit.vm_mirror(gw)
        name, expected = vmunit.build_dbg_unit(gw, rl, reset_redirect=redirect)
        rl.check(expected)
        b = {'c_sources': [os.path.join(CONTRACTS, 'vm_dbg.c')], 'cxx_sources': [os.path.join(gw, name)],
             'cxxdefs': ['MODEL_MAP_INDEX_MUST_FIND'], 'cdefs': list(cdefs),
             'entry': 'h_' + fn, 'enforce': [f'w_{fn}/c_{fn}'], 'dropped': DROPPED_VM, 'min_obligations': 10}
        if redirect:
            b['replace'] = ['w_clearBreakpoints/c_clearBreakpoints']
        if loops:
            b['loops_tpl'] = os.path.join(CONTRACTS, 'vm_dbg.loops.json.in')
        if unwind:
            b['cbmc_extra'] = ['--unwind', str(unwind)]
        return b
    return build


def groups():
    gs = []
    gs.append(Group('vm_layout', STEP_PROPS + ['C17', 'C07', 'C08', 'C18'], 'class layouts of Theo::VM, Program, Instruction, Activation, BreakPoint, StackMap',
                    'layout obligations: offset of every mirrored member equals the generated C mirror', _layout_build,
                    timeout=120))
    for op in vmunit.OPCODES:
        props = list(STEP_PROPS) + ['C18']
        if op == 'HALT':
            props.append('C17')
        gs.append(Group(f'step_{op}', props, 'Theo::VM::executeSingle (VM/src/vm.cpp), case OpCode::' + op,
                        f'c_step_{op}', _step_build(op), timeout=3600,
                        expect_loops=1 if op == 'PREPARE_EXEC' else 0, spec_checks=True))
    gs.append(Group('stepU_PREPARE_EXEC', STEP_PROPS, 'Theo::VM::executeSingle (VM/src/vm.cpp), case OpCode::PREPARE_EXEC', 'c_step_PREPARE_EXEC',
                    _prepare_bounded_build, timeout=900,
                    bounded='BOUNDED stand-in: frame size count <= 3, zero-fill loop unwound (--unwind 6 --unwinding-assertions) instead of its loop contract; catches changes of the loop shape that make the loop contract inapplicable'))
    gs.append(Group('vmU_disassemble', ['C08', 'C18'], 'Theo::Program::disassemble (VM/src/program.cpp)', 'c_disassemble', _disasm_build, timeout=600,
                    bounded='BOUNDED stand-in: a program of one instruction, line_info of capacity 2, --unwind 3'))
    gs.append(Group('step_ALL_unsliced', STEP_PROPS + ['C17', 'C18'], 'Theo::VM::executeSingle (VM/src/vm.cpp), unsliced, all 12 cases',
                    'c_step_any', _step_all_build, timeout=7200, tier='thorough', expect_loops=1, spec_checks=True,
                    note='cross-check: the general contract used as callee contract of execute holds on the unsliced body'))
    gs.append(Group('execute', ['C06', 'C17', 'C05', 'C03', 'C19', 'C20', 'C18'], 'Theo::VM::execute (VM/src/vm.cpp)', 'c_execute', _execute_build,
                    timeout=1800, expect_loops=1,
                    note='callee executeSingle replaced by its contract c_step_any'))
    for fn in ('getCurrentBreak', 'setSteppingMode', 'isSteppingModeEnabled', 'isDone', 'getActivations', 'getEnabledBreakPoints'):
        gs.append(Group('dbg_' + fn, DBG_PROPS + (['C07'] if fn in ('getCurrentBreak', 'getActivations') else []),
                        f'Theo::VM::{fn} (VM/src/vm.cpp)', 'c_' + fn, _dbg_build(fn), timeout=600))
    gs.append(Group('dbg_reset', DBG_PROPS + ['C19', 'C07', 'C16'], 'Theo::VM::reset (VM/src/vm.cpp)', 'c_reset', _dbg_build('reset', redirect=True),
                    timeout=600, note='callee clearBreakpoints replaced by its contract c_clearBreakpoints'))
    BND = 'BOUNDED in the number of table entries only: potential_breaks and enabled_breakpoints hold at most %d entries (constant-size arrays); site lists (loop contracts), program, data and stack sizes stay symbolic and unbounded'
    BNDU = ('BOUNDED stand-in: at most 2 locations in potential_breaks, at most 2 enabled locations, at most 2 sites per location, '
            'at most 8 instructions, --unwind 3 --unwinding-assertions (nested loop contracts, and symbolic-size code arrays under nested unwinding, exhaust the solver memory); data and stack sizes stay symbolic')
    gs.append(Group('dbgU_clearBreakpoints', DBG_PROPS, 'Theo::VM::clearBreakpoints (VM/src/vm.cpp)', 'c_clearBreakpoints',
                    _dbg_build('clearBreakpoints', cdefs=['TBL_CAP=2', 'LIST_CAP=2', 'CODE_CAP=8', 'CLEAR_COMPLETE'], unwind=3), timeout=1800, bounded=BNDU))
    for K, tier in ((8, 'quick'), (16, 'thorough')):
        sfx = '' if tier == 'quick' else f'_K{K}'
        gs.append(Group('dbgB_setBreakPoint' + sfx, DBG_PROPS + ['C08'], 'Theo::VM::setBreakPoint (VM/src/vm.cpp)', 'c_setBreakPoint',
                        _dbg_build('setBreakPoint', loops=True, cdefs=[f'TBL_CAP={K}']), timeout=1800, expect_loops=1, tier=tier, bounded=BND % K))
    gs += act_groups()
    gs += ctor_groups()
    return gs


def act_groups():
    import actunit

    def build(gw, rl):
        vmunit.vm_mirror(gw)
        name = actunit.build_act_unit(gw, rl)
        return {'c_sources': [os.path.join(CONTRACTS, 'vm_act.c')], 'cxx_sources': [os.path.join(gw, name)], 'cdefs': ['ACT_K=2'], 'cxxdefs': ['MODEL_MAP_CAP=4'],
                'entry': 'h_getActivationVariables', 'enforce': ['w_getActivationVariables/c_getActivationVariables'], 'dropped': DROPPED_VM,
                'min_obligations': 10, 'cbmc_extra': ['--unwind', '4', '--unwindset', '__CPROVER_contracts_write_set_check_assigns_clause_inclusion.0:40']}
    return [Group('dbgU_getActivationVariables', ['C03', 'C05', 'C07', 'C18'], 'Theo::VM::Activation::getActivationVariables (VM/src/vm.cpp)', 'c_getActivationVariables',
                  build, timeout=900,
                  bounded='BOUNDED stand-in: frame of at most 2 words, stack map of at most 2 entries, result map of capacity 4, --unwind 4 --unwinding-assertions (two nested loops over a map; data size symbolic)')]


def ctor_groups():
    import ctorunit

    def build(gw, rl):
        vmunit.vm_mirror(gw)
        name = ctorunit.build_ctor_unit(gw, rl)
        return {'c_sources': [os.path.join(CONTRACTS, 'vm_ctor.c')], 'cxx_sources': [os.path.join(gw, name)], 'entry': 'h_ctor',
                'enforce': ['w_ctor/c_ctor'], 'dropped': DROPPED_VM, 'min_obligations': 5}
    return [Group('vm_ctor', ['C17', 'C05', 'C06', 'C19', 'C18'], 'Theo::VM::VM(Program) (VM/src/vm.cpp)', 'c_ctor', build, timeout=300,
                  note='the model containers copy shallowly: "the machine owns a private copy of the program" (C18) is not expressible in the model')]
