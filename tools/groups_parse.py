"""Obligation groups of the recursive-descent parser (tier C2)."""
import os
from framework import Group, CONTRACTS
import parseunit

DROPPED = ['libstdc++ headers (replaced by model/include; std::vector<Token>::iterator is the index-based model iterator)',
           'includes of parse.cpp: Compiler/include/lexer.hpp, Compiler/include/macro.hpp (not used by the descent functions)',
           'Theo::parse (driver: scan, macro passes, trailing-input loop) is not in the unit',
           'Theo::token_string is a stub returning an arbitrary string (string content is not modelled)']
MEMBERS = ['lookahead', 'match', 'matchmk', 'mk']
FLAGS = ['--unwinding-assertions', '--no-malloc-may-fail']


def _build(fn, layout=False):
    def build(gw, rl):
        n_layout, xlayout = parseunit.parse_mirror(gw)
        redirect = fn if fn in parseunit.DESCENT else None
        name = parseunit.build_parse_unit(gw, rl, redirect=redirect, name=f'x_parse_{fn}.cpp', layout_text=xlayout if layout else None)
        b = {'cxx_sources': [os.path.join(gw, name)], 'cxxdefs': ['MODEL_VECTOR_INDEX_ITERATORS'], 'dropped': DROPPED,
             'cbmc_flags': FLAGS, 'min_obligations': 10}
        if layout:
            b.update({'c_sources': [os.path.join(gw, 'layout_parse_c.c')], 'entry': 'h_layout', 'min_obligations': n_layout})
            return b
        b.update({'c_sources': [os.path.join(CONTRACTS, 'parse.c')], 'entry': 'h_' + fn, 'enforce': [f'w_{fn}/c_{fn}'], 'cdefs': [f'CANARY_{fn}'],
                  'loops_tpl': os.path.join(CONTRACTS, 'parse.loops.json.in')})
        if redirect:
            # (a recursive call of the function under contract is replaced by DFCC itself)
            b['replace'] = [f'w_{m}/c_{m}' for m in ('lookahead', 'match', 'matchmk')] + [f'w_{f}/c_{f}' for f in parseunit.DESCENT if f != fn] + [f'w_{fn}_rec/c_{fn}']
            b.pop('loops_tpl')
            if fn == 'expected_end_or_semicolon':
                b['loops_tpl'] = os.path.join(CONTRACTS, 'parse_eeos.loops.json.in')
        return b
    return build


def groups():
    gs = [Group('parse_layout', ['C02', 'C04', 'C07'], 'class layouts of Token, Node, SyntaxError, AST', 'layout obligations', _build('layout', layout=True), timeout=300)]
    for fn in MEMBERS:
        owner = 'AST::mk (Compiler/src/ast.cpp)' if fn == 'mk' else f'ParseState::{fn} (Compiler/src/parse.cpp)'
        gs.append(Group('parse_' + fn, ['C02', 'C04', 'C07'] + (['C08'] if fn in ('matchmk', 'mk') else []), owner, 'c_' + fn, _build(fn), timeout=900, expect_loops=1 if fn in ('match', 'matchmk') else 0))
    for fn in ('VALUE', 'VARGS', 'MVARGS', 'PORTS', 'OPORTS', 'ARGS', 'MARGS', 'MOREP', 'P', 'S', 'expected_end_or_semicolon'):
        gs.append(Group('parse_' + fn, ['C02', 'C04'] + (['C07', 'C08'] if fn in ('P', 'S') else []), f'{fn} (Compiler/src/parse.cpp)', 'c_' + fn, _build(fn), timeout=1800,
                        note='callees (ParseState members and all descent functions) replaced by their contracts'))
    gs += prod_groups()
    return gs


def prod_groups():
    rec = {'match': 'c_match_r', 'matchmk': 'c_matchmk_r', 'VALUE': 'c_VALUE_r', 'MOREP': 'c_MOREP_r', 'expected_end_or_semicolon': 'c_eeos_r', 'P_rec': 'c_P_r',
           'P': 'c_P_r', 'PORTS': 'c_PORTS_r', 'S_rec': 'c_S_r'}

    def mk(fn):
        def build(gw, rl):
            b = _build(fn)(gw, rl)
            b['c_sources'] = [os.path.join(CONTRACTS, 'parse_prod.c')]
            b['cdefs'] = []
            b['entry'] = f'h_{fn}_prod'
            b['enforce'] = [f'w_{fn}/c_{fn}_prod']
            out = []
            for r in b['replace']:
                w, c = r.split('/')
                out.append(f'{w}/{rec.get(w[2:], c)}')
            b['replace'] = out
            return b
        return build
    return [Group(f'parse_{fn}_prod', ['C04', 'C01', 'C07', 'C02'] + (['C16'] if fn == 'S' else []), f'{fn} (Compiler/src/parse.cpp): production conformance and tree shape',
                  f'c_{fn}_prod', mk(fn), timeout=2400,
                  note='callees replaced by recording variants of their contracts (ghost trace of terminals / nonterminals and returned nodes)') for fn in ('P', 'S')]
