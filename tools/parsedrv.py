"""Verification unit of the parser driver in the middle of Theo::parse (Compiler/src/parse.cpp): from the declaration of the token cursor over the
macro-expanded sequence to the statement that gathers the pass errors - `a.root = S(ps);` and the trailing-input loop.  The unit is the parser unit
(tools/parseunit.py: ParseState, the descent functions, AST::mk) plus this slice; S and the ParseState members are used through contracts."""
import os
import re
from cpptok import untok
from extract import (LitTable, Source, ExtractError, rewrite_string_literals, rewrite_braced_arg, leftovers, _retok)
import parseunit

REPO = os.environ.get('VERIF_REPO', '/repo')
DECLS = '''
// ---- slice S4 of Theo::parse (tools/parsedrv.py)
struct __verif_ts_only { std::vector<Token> transformed_sequence; };
extern "C" { void __verif_drv_state(void *it); void __verif_drv_end(void); }
'''
WRAPPERS = '''
extern "C" {
void w_parse_driver(void *ts, void *a) { __verif_ts_only r; r.transformed_sequence = *(std::vector<Token> *)ts; __verif_parse_driver(r, *(Theo::AST *)a); }
}
'''


class _Lits(LitTable):
    def id_of(self, lit_tok_text):
        if lit_tok_text not in self.ids:
            self.ids[lit_tok_text] = -5000 - len(self.ids)
        return self.ids[lit_tok_text]


def build_parsedrv_unit(work, log, name='x_parse_drv.cpp'):
    parseunit.build_parse_unit(work, log, redirect=None, name=name)
    src = Source(os.path.join(REPO, 'Compiler/src/parse.cpp'))
    ft, (nm, lp, rp, lb, rb), _ = src.function_tokens('Theo::parse')
    body = untok(ft[lb:])
    m1 = re.search(r'std\s*::\s*vector\s*<\s*(?:Theo\s*::\s*)?Token\s*>\s*::\s*iterator\s+(\w+)\s*=\s*(\w+)\s*\.\s*transformed_sequence\s*\.\s*begin\s*\(\s*\)\s*;', body)
    m2 = re.search(r'std\s*::\s*vector\s*<\s*std\s*::\s*vector\s*<\s*(?:Theo\s*::\s*)?ParseError\s*>\s*>\s*\w+\s*=', body)
    ma = re.search(r'\bAST\s+(\w+)\s*;', body)
    if not m1 or not m2 or not ma or m2.start() < m1.end():
        raise ExtractError('S4 in Theo::parse: the statements from the token cursor declaration to the gathering of the pass errors were not found')
    log.fire('S4', 'Theo::parse')
    it, mar, ast = m1.group(1), m1.group(2), ma.group(1)
    mid = body[m1.start():m2.start()]
    if re.search(r'\breturn\b', mid):
        raise ExtractError('S4 in Theo::parse: a return statement inside the driver part')
    # N15: `ParseState ps = {a, it};` -> the explicit constructor of the unit; N12: the cursor is a local - its address becomes the ghost handle
    mid, n = re.subn(r'\bParseState\s+(\w+)\s*=\s*\{\s*(\w+)\s*,\s*(\w+)\s*\}\s*;', r'ParseState \1(\2, \3); __verif_drv_state(&\3);', mid)
    if n != 1:
        raise ExtractError(f'N15 in Theo::parse: `ParseState ps = {{a, it}};` found {n} times')
    log.fire('N15', 'Theo::parse')
    log.fire('N12', 'Theo::parse')
    tt = _retok(mid)
    cnt = len(re.findall(r'push_back\s*\(\s*\{', mid))
    if cnt:
        tt = rewrite_braced_arg(tt, 0, [dict(parseunit.SYNERR) for _ in range(cnt)], log, 'Theo::parse')
    lits = _Lits()   # ids disjoint from those of the parser unit's own literals
    tt = rewrite_string_literals(tt, 0, log, 'Theo::parse', lits)
    tt = parseunit.deref_iterator_arrow(tt, log, 'Theo::parse')
    tt = parseunit.unqualify_unscoped_enum(tt, log, 'Theo::parse')
    # N7: S and the ParseState members are used through their contracts (index 0 is a padding token: the helpers scan down to lo + 1)
    tt = _retok(' ') + tt
    tt = parseunit.redirect_free_calls(tt, 0, set(parseunit.DESCENT), log, 'Theo::parse')
    tt = parseunit.redirect_ps_members(tt, 0, log, 'Theo::parse')
    text = (DECLS + f'extern "C" {{\nvoid __verif_parse_driver(__verif_ts_only &{mar}, AST &{ast}) {{\n' + untok(tt) + '\n__verif_drv_end();\n}\n}\n' + WRAPPERS)
    leftovers(text, name)
    with open(os.path.join(work, name), 'a') as fo:
        fo.write(text)
    return name
