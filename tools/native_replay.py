"""Native replay of CBMC witnesses on the real code (DESIGN.md 3.6)."""
import os
import re
import subprocess

import framework as F
import cbmcrun as C
from extract import RuleLog

VERIF = F.VERIF
REPO = F.REPO


def _num(v):
    m = re.match(r'^(-?\d+)', str(v))
    return int(m.group(1)) if m else None


def build_vm_driver(work):
    exe = os.path.join(work, 'vm_replay')
    if os.path.exists(exe):
        return exe
    srcs = [os.path.join(VERIF, 'replay', 'vm_replay.cpp')] + [os.path.join(REPO, 'VM/src', f) for f in ('vm.cpp', 'instr.cpp', 'program.cpp')]
    cmd = ['g++', '-std=c++20', '-g', '-O1', '-fsanitize=address,undefined', '-fno-sanitize-recover=undefined',
           '-DTHEO_IDE_LIBTHEO_VERIF', '-I' + REPO, '-o', exe] + srcs
    p = subprocess.run(cmd, stdout=subprocess.PIPE, stderr=subprocess.STDOUT, text=True, timeout=600)
    if p.returncode != 0:
        raise RuntimeError('native driver build failed: ' + p.stdout[-1500:])
    return exe


def run_vm_driver(exe, wit):
    args = [f'{k}={_num(v)}' for k, v in sorted(wit.items()) if k.startswith('cex_') and _num(v) is not None]
    p = subprocess.run([exe] + args, stdout=subprocess.PIPE, stderr=subprocess.STDOUT, text=True, timeout=120,
                       env=dict(os.environ, ASAN_OPTIONS='detect_leaks=0'))
    return p.returncode, p.stdout[-4000:], args


def small_witness(r, o, work):
    """re-run the failing group with sizes capped (WITNESS_SMALL) to obtain a witness that fits a native run"""
    import registry
    g = [g for g in registry.all_groups() if g.name == r['group']]
    if not g:
        return None
    g = g[0]
    orig = g.build

    def build(gw, rl):
        b = orig(gw, rl)
        b['cdefs'] = list(b.get('cdefs', [])) + ['WITNESS_SMALL']
        return b
    g2 = F.Group(g.name + '__small', g.props, g.function, g.contract, build, timeout=g.timeout, expect_loops=g.expect_loops)
    rr = F.run_group(g2, work, False, RuleLog)
    for oo in rr['obligations']:
        if oo['name'] == o['name'] and oo['status'] == 'FAILURE' and oo.get('trace'):
            import replay
            return replay.witness_from_trace(oo['trace'])
    return None


def try_replay(pid, r, o, wit, work):
    if not r['group'].startswith('step_'):
        return False, {'note': 'no native replay driver for this group; verifier output only'}
    native = {}
    w = wit
    big = any((_num(wit.get(k)) or 0) > (1 << 20) for k in ('cex_n', 'cex_m', 'cex_d'))
    if big or not wit:
        sw = small_witness(r, o, work)
        native['small_witness_rerun'] = bool(sw)
        if sw:
            w = sw
    exe = build_vm_driver(work)
    rc, out, args = run_vm_driver(exe, w)
    native.update({'driver': 'replay/vm_replay.cpp + /repo/VM/src/*.cpp (g++ -fsanitize=address,undefined -DTHEO_IDE_LIBTHEO_VERIF)',
                   'args': args, 'exit': rc, 'output': out, 'witness_used': w})
    return (rc not in (0, 4)), native


def rerun(doc):
    work = os.path.join(VERIF, '.work', 'replay-%d' % os.getpid())
    os.makedirs(work, exist_ok=True)
    try:
        nat = doc.get('native') or {}
        w = nat.get('witness_used') or doc.get('witness') or {}
        if not doc['group'].startswith('step_'):
            return False, {'note': 'verifier output only', 'verifier_output': doc.get('verifier_output')}
        exe = build_vm_driver(work)
        rc, out, args = run_vm_driver(exe, w)
        return (rc not in (0, 4)), {'exit': rc, 'output': out, 'args': args}
    finally:
        import shutil
        shutil.rmtree(work, ignore_errors=True)
