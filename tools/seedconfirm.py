#!/usr/bin/env python3
"""Confirm a staged seeded change: applies cleanly to /repo HEAD, builds, passes the 12 tests, demo fails with it and passes without.
usage: seedconfirm.py <staging dir of one mutation> -> prints JSON"""
import json, os, shutil, subprocess, sys, tempfile
d = os.path.abspath(sys.argv[1])
wt = tempfile.mkdtemp(prefix='seedconf-', dir='/var/tmp')
os.rmdir(wt)
res = {'dir': d}
def run(cmd, cwd=None, timeout=1800):
    p = subprocess.run(cmd, cwd=cwd, shell=isinstance(cmd, str), stdout=subprocess.PIPE, stderr=subprocess.STDOUT, text=True, timeout=timeout)
    return p.returncode, p.stdout[-3000:]
try:
    run(['git', '-C', '/repo', 'worktree', 'add', '-q', '--detach', wt, 'HEAD'])
    demo = tempfile.mkdtemp(prefix='seeddemo-', dir='/var/tmp')
    for f in os.listdir(d):
        shutil.copy(os.path.join(d, f), demo)
    rc, out = run(['bash', 'build_and_run.sh', wt], cwd=demo)
    res['demo_clean_rc'] = rc
    rc, out = run(['git', 'apply', os.path.join(d, 'patch.diff')], cwd=wt)
    res['apply_rc'] = rc
    if rc != 0:
        res['apply_out'] = out
    rc, out = run(f'cmake -G Ninja -S {wt} -B {wt}/_b >/dev/null && cmake --build {wt}/_b 2>&1 | tail -3 && ctest --test-dir {wt}/_b -j8 2>&1 | tail -3')
    res['tests_rc'] = rc
    res['tests_tail'] = out[-300:]
    shutil.rmtree(os.path.join(wt, '_b'), ignore_errors=True)
    run(['git', 'checkout', '--', 'Compiler/src/lex.yy.c', 'Compiler/include/lex.yy.h'], cwd=wt)
    rc, out = run(['bash', 'build_and_run.sh', wt], cwd=demo)
    res['demo_mut_rc'] = rc
    res['demo_mut_tail'] = out[-400:]
    res['confirmed'] = (res['demo_clean_rc'] == 0 and res['apply_rc'] == 0 and res['tests_rc'] == 0 and '100% tests passed' in res['tests_tail'] and res['demo_mut_rc'] != 0)
finally:
    subprocess.run(['git', '-C', '/repo', 'worktree', 'remove', '--force', wt], stdout=subprocess.DEVNULL, stderr=subprocess.DEVNULL)
    shutil.rmtree(wt, ignore_errors=True)
    shutil.rmtree(demo, ignore_errors=True)
print(json.dumps(res))
