#!/usr/bin/env python3
"""development aid: run obligation groups by name without property attribution.  usage: rungroup.py <module> <group>[,<group>] [--keep]"""
import importlib, os, shutil, sys
sys.path.insert(0, os.path.dirname(os.path.abspath(__file__)))
import framework as F
from extract import RuleLog
modname, _, fn = sys.argv[1].partition(':')
mod = importlib.import_module(modname)
want = sys.argv[2].split(',')
work = os.path.join(os.path.dirname(os.path.dirname(os.path.abspath(__file__))), '.work', 'dev-' + sys.argv[2].replace(',', '+')[:40])
shutil.rmtree(work, ignore_errors=True)
os.makedirs(work)
for g in getattr(mod, fn or 'groups')():
    if g.name in want:
        r = F.run_group(g, work, '--spec' in sys.argv, RuleLog)
        print(f'[{r["status"]}] {r["group"]} {r["seconds"]:.1f}s {len(r["obligations"])} obligations {r["reason"][:1500]}')
        bad = [o for o in r['obligations'] if o['status'] != 'SUCCESS' and o['class'] not in ('canary', 'slice')]
        for o in bad[:25]:
            print('   ', o['status'], o['class'], o['name'], '|', (o['clause'] or o['description'])[:200])
print('work dir:', work)
