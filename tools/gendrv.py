"""Gen unit variants for the driver functions of Compiler/src/gen.cpp: dispatchVoid (statement dispatcher), gen_ast, Theo::gen.
The unit is the ordinary gen unit (tools/genunit.py: all of gen.cpp); in the ONE function under contract the calls of its
callees are redirected (rule N7) to their extern "C" wrappers so that contracts can replace them."""
import os
import re
import genunit
from cpptok import untok
from extract import Source, ExtractError, _retok

# (regex, replacement) applied to the text of the function under contract
R_DISPATCHERS = [(r'\bdispatch(Assign|Loop|While|Mark|Goto|If|Program)\s*\(\s*gs\s*,\s*', r'w_dispatch\1(&gs, ')]
R_VOID_REC = [(r'\bdispatchVoid\s*\(\s*gs\s*,\s*', r'w_dispatchVoid_rec(&gs, ')]
R_VOID = [(r'\bdispatchVoid\s*\(\s*gs\s*,\s*', r'w_dispatchVoid(&gs, ')]
R_TABLES = [(r'\bgs\s*\.\s*removeTopPotBreak\s*\(\s*\)', r'w_removeTopPotBreak(&gs)'),
            (r'\bgs\s*\.\s*advanceLine\s*\(\s*([^,()]+?)\s*,\s*([^,()]+?)\s*\)', r'w_advanceLine(&gs, \1, (\2)._id)')]
R_GEN = [(r'\bgen_ast\s*\(\s*gs\s*\)', r'w_gen_ast(&gs)'),
         (r'\bgs\s*\.\s*popSymbols\s*\(\s*([^()]+?)\s*\)', r'w_popSymbols(&gs, \1)'),
         (r'\bgs\s*\.\s*backpatch\s*\(\s*\)', r'w_backpatch(&gs)'),
         # N12: the generator state is a local: its address goes to the ghost handle, and the model containers reserve their
         # storage up front (their lazy allocation cannot happen inside a callee that is replaced by a contract)
         (r'\bGenState\s+gs\s*;', 'GenState gs; __verif_gen_state(&gs); gs.out.code._reserve(); gs.errors._reserve(); gs.symbols._reserve(); gs.labels._reserve(); '
                                   'gs.backpatching_todo._reserve(); gs.out.stack_maps._reserve(); gs.funcAddrs._reserve();')]
PLANS = {
    'dispatchVoid': ('dispatchVoid', R_DISPATCHERS + R_VOID_REC + R_TABLES),
    'gen_ast': ('gen_ast', R_VOID),
    'gen': ('Theo::gen', R_GEN),
}
EXTRA_DECLS = '''
extern "C" {
void w_dispatchVoid_rec(void *p, void *c); void w_dispatchLoop(void *p, void *c); void w_dispatchWhile(void *p, void *c); void w_dispatchIf(void *p, void *c);
void w_dispatchGoto(void *p, void *c); void w_dispatchMark(void *p, void *c); void w_dispatchAssign(void *p, void *c); void w_removeTopPotBreak(void *p);
void w_gen_ast(void *p); void w_backpatch(void *p); void __verif_gen_state(void *gs);
}
'''
EXTRA_WRAPPERS = '''
extern "C" {
void w_dispatchVoid_rec(void *p, void *c) { w_dispatchVoid(p, c); }
void w_gen_ast(void *p) { gen_ast(*(GenState *)p); }
void w_gen(void *in, void *out) { *(Theo::CodegenResult *)out = Theo::gen(*(Theo::AST *)in); }
}
'''


def build_drv_unit(work, log, which, layout_text=None):
    name, expected = genunit.build_gen_unit(work, log, layout_text=layout_text)
    path = os.path.join(work, name)
    qual, rules = PLANS[which]
    src = Source(path)
    s, nm, lp, rp, lb, rb, _ = src.find_function(qual)
    body = untok(src.toks[lb:rb + 1])
    n = 0
    for rx, rep in rules:
        body, k = re.subn(rx, rep, body)
        n += k
    if n == 0:
        raise ExtractError(f'N7 in {qual}: no callee to redirect')
    log.fire('N7', qual, n)
    head = untok(src.toks[:s]) if False else None
    if which == 'gen_ast':
        # N10: C linkage (body untouched) so that the loop-contract file can address the function and its loop's iterators
        text = untok(src.toks[:s]) + 'extern "C" {\n' + untok(src.toks[s:lb]) + body + '\n}' + untok(src.toks[rb + 1:])
        log.fire('N10', qual)
    else:
        text = untok(src.toks[:lb]) + body + untok(src.toks[rb + 1:])
    # declarations of the additional wrappers go before the first free function, definitions at the end
    k = text.index('void dispatchVoid(GenState &gs, Node *c);')
    text = text[:k] + EXTRA_DECLS + text[k:] + EXTRA_WRAPPERS
    with open(path, 'w') as f:
        f.write(text)
    return name, expected
