"""Verification unit of the constructor Theo::VM::VM(Program) (VM/src/vm.cpp)."""
import os
from cpptok import untok
from extract import Source, leftovers, rewrite_braced_assign, ExtractError
import vmunit

REPO = os.environ.get('VERIF_REPO', '/repo')


def build_ctor_unit(work, log, name='x_ctor.cpp'):
    src = Source(os.path.join(REPO, 'VM/src/vm.cpp'))
    q = 'VM::VM'
    ft, (nm, lp, rp, lb, rb), _ = src.function_tokens(q)
    ft = rewrite_braced_assign(ft, lb, log, q)   # N4: `x = {};` -> `x.clear();`
    text = vmunit.PRELUDE + untok(ft) + '''
extern "C" {
// placement of the constructor on caller-provided storage (the object and the argument are harness objects)
void w_ctor(void *vm, void *prog) { Theo::VM *v = (Theo::VM *)vm; Theo::VM tmp(*(Theo::Program *)prog); *v = tmp; }
}
'''
    leftovers(text, name)
    with open(os.path.join(work, name), 'w') as f:
        f.write(text)
    return name
