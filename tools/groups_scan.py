"""Obligation groups of the include-resolving scanner driver (Compiler/src/scan.cpp)."""
import os
from framework import Group, CONTRACTS
import scanunit

DROPPED = ['libstdc++ headers (model/include)', 'Compiler/include/lexer.hpp and the flex scanner lex.yy.c (yylex: trusted contract "any token"; yy* API: stubs)',
           'token_map / Theo::token_string (a constant table lookup)']


def _build(fn, layout=False, loops=None, replace=(), cap=None):
    def build(gw, rl):
        n_layout, xlayout = scanunit.scan_mirror(gw)
        name = scanunit.build_scan_unit(gw, rl, layout_text=xlayout if layout else None)
        b = {'cxx_sources': [os.path.join(gw, name)], 'dropped': DROPPED, 'cbmc_flags': ['--unwinding-assertions', '--no-malloc-may-fail'],
             'min_obligations': 5}
        if cap:
            b['cxxdefs'] = [f'MODEL_VECTOR_CAP={cap}']
        if layout:
            b.update({'c_sources': [os.path.join(gw, 'layout_scan_c.c')], 'entry': 'h_layout'})
        else:
            b.update({'c_sources': [os.path.join(CONTRACTS, 'scan.c')], 'entry': 'h_' + fn, 'enforce': [f'w_{fn}/c_{fn}'], 'replace': list(replace)})
            if loops:
                b['loops_tpl'] = os.path.join(CONTRACTS, loops)
        return b
    return build


def groups():
    return [
        Group('scan_layout', ['C02', 'C15'], 'class layouts of Token, ParseError, ScanResult, Scanner', 'layout obligations', _build('layout', layout=True), timeout=300),
        Group('scan_exists_scanner', ['C15', 'C02'], 'exists_scanner(std::vector<Scanner>&, FileName) (Compiler/src/scan.cpp)', 'c_exists_scanner',
              _build('exists_scanner', loops='scan_exists.loops.json.in'), timeout=600, expect_loops=1),
        Group('scanB_scan', ['C15', 'C02'], 'Theo::scan(std::map<FileName, FileContent>, FileName) (Compiler/src/scan.cpp)', 'c_scan',
              _build('scan', loops='scan.loops.json.in', replace=['w_exists_scanner_callee/c_exists_scanner_callee', 'w_yylex/c_yylex'], cap=4), timeout=1200, expect_loops=1,
              bounded='BOUNDED stand-in: capacity of lex_stack, errors and res fixed at 4 elements (iterations of the driver loop unbounded: loop contract)'),
        Group('scanB_scan_K8', ['C15', 'C02'], 'Theo::scan(std::map<FileName, FileContent>, FileName) (Compiler/src/scan.cpp)', 'c_scan',
              _build('scan', loops='scan.loops.json.in', replace=['w_exists_scanner_callee/c_exists_scanner_callee', 'w_yylex/c_yylex'], cap=8), timeout=3600, expect_loops=1,
              tier='thorough', bounded='BOUNDED stand-in: capacity of lex_stack, errors and res fixed at 8 elements (iterations of the driver loop unbounded: loop contract)'),
    ]
