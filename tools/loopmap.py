"""Fill the symbol_map of a loop-contracts template from the goto symbol table of the current build.

Template (contracts/<unit>.loops.json.in): {"functions":[{"<fn regex>":[{"loop_id":..,"assigns":..,"invariants":..,
"decreases":..,"locals":["k","next_len"],"fn_prefix":"Theo::VM::executeSingle(this)"}]}]}
Locals are looked up by base name among the symbols of that function; a renamed or ambiguous local is an error
(exit 2), never a silent pass.
"""
import json
import os
import re
import subprocess


class LoopMapError(Exception):
    pass


def symbols(gb):
    out = subprocess.run(['goto-instrument', '--show-symbol-table', gb], stdout=subprocess.PIPE, stderr=subprocess.DEVNULL, text=True).stdout
    return re.findall(r'^Symbol\.+: (.*)$', out, re.M)


def cpp_expand(expr, cppargs, incdirs):
    """macro-expand a predicate with the C preprocessor (contract macros are shared with the C contract units)"""
    src = '@@@PREDICATE@@@\n' + expr + '\n'
    cmd = ['gcc', '-E', '-P', '-x', 'c'] + [f'-I{d}' for d in incdirs] + cppargs + ['-']
    p = subprocess.run(cmd, input=src, stdout=subprocess.PIPE, stderr=subprocess.PIPE, text=True)
    if p.returncode != 0:
        raise LoopMapError('cpp failed on loop predicate: ' + p.stderr[-800:])
    out = p.stdout.split('@@@PREDICATE@@@', 1)[1]
    return ' '.join(out.split())


def loops_of(gb):
    out = subprocess.run(['goto-instrument', '--show-loops', gb], stdout=subprocess.PIPE, stderr=subprocess.DEVNULL, text=True).stdout
    return re.findall(r'^Loop (.*)\.(\d+):$', out, re.M)


def fill(template_path, gb, out_path, incdirs=(), fallbacks=None):
    """returns the number of loop contracts written.  An entry marked "optional_if_loop_free" is dropped when the function
    (as it is in the current tree) has no loop with that id: the function contract is then enforced without a loop contract."""
    tpl = json.load(open(template_path))
    syms = symbols(gb)
    have = loops_of(gb)
    nloops = 0
    for fn in tpl['functions']:
        for rx, loops in fn.items():
            for lp in list(loops):
                if lp.pop('optional_if_loop_free', False) and not any(re.fullmatch(rx, f) and i == lp['loop_id'] for f, i in have):
                    loops.remove(lp)
                    continue
                prefix = lp.pop('fn_prefix')
                locs = lp.pop('locals', [])
                cppargs = lp.pop('cpp', None)
                if cppargs:
                    for key in ('assigns', 'invariants', 'decreases'):
                        if key in lp:
                            lp[key] = cpp_expand(lp[key], cppargs, list(incdirs))
                pairs = []
                missing = None
                for name in locs:
                    cands = [s for s in syms if s.startswith(prefix + '::') and s.endswith('::' + name)]
                    if len(cands) != 1:
                        missing = f'local {name} of {prefix}: {len(cands)} candidates {cands[:4]}'
                        break
                    pairs.append(f'{name},{cands[0]}')
                if missing:
                    if lp.get('fallback_unwind') and fallbacks is not None:
                        fallbacks.append(int(lp['fallback_unwind']))
                        loops.remove(lp)
                        continue
                    raise LoopMapError(missing)
                lp.pop('fallback_unwind', None)
                if pairs:
                    lp['symbol_map'] = ';'.join(pairs)
                nloops += 1
    tpl['functions'] = [{rx: lps for rx, lps in fn.items() if lps} for fn in tpl['functions']]
    tpl['functions'] = [fn for fn in tpl['functions'] if fn]
    json.dump(tpl, open(out_path, 'w'), indent=1)
    return nloops
