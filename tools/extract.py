"""Mechanical extraction of function definitions from /repo's current working tree.

The verified text is the text that runs: function definitions are copied verbatim (token for
token, whitespace and comments included) and then only the logged normalisations N1..N10 of
DESIGN.md 3.1 are applied.  Every rule application is counted; the unit description states how
often each rule must fire, and any mismatch raises ExtractError (check exits 2, never "pass").
"""
import os
from cpptok import tokenize, match_close, untok, Tok


class ExtractError(Exception):
    pass


def is_code(t):
    return t.kind not in ('ws', 'com', 'pp')


def next_code(toks, k):
    k += 1
    while k < len(toks) and not is_code(toks[k]):
        k += 1
    return k


def prev_code(toks, k):
    k -= 1
    while k >= 0 and not is_code(toks[k]):
        k -= 1
    return k


def seq_at(toks, k, texts):
    """do code tokens starting at k spell `texts`? returns index of last matched token or -1"""
    j = k
    for i, tx in enumerate(texts):
        if j >= len(toks) or toks[j].text != tx:
            return -1
        last = j
        if i + 1 < len(texts):
            j = next_code(toks, j)
    return last


class Source:
    def __init__(self, path):
        self.path = path
        self.text = open(path).read()
        self.toks = tokenize(self.text)

    def depth_map(self):
        """brace depth before each token"""
        d = 0
        out = []
        for t in self.toks:
            if t.kind == 'op' and t.text == '}':
                d -= 1
            out.append(d)
            if t.kind == 'op' and t.text == '{':
                d += 1
        return out

    def find_class(self, name):
        toks = self.toks
        for k, t in enumerate(toks):
            if t.kind == 'id' and t.text in ('struct', 'class'):
                j = next_code(toks, k)
                if j < len(toks) and toks[j].text == name:
                    b = next_code(toks, j)
                    if b < len(toks) and toks[b].text == '{':
                        p = prev_code(toks, k)
                        if p >= 0 and toks[p].text == 'enum':
                            continue
                        return k, b, match_close(toks, b)
        raise ExtractError(f'{self.path}: class {name} not found')

    def find_function(self, qualname):
        """locate a function *definition*.
        'A::f'  : first an out-of-class definition `A::f(`; else an in-class definition inside `struct A {`.
        'f'     : a namespace-scope definition.
        returns (start, name_idx, lparen, rparen, lbrace, rbrace, inclass)"""
        toks = self.toks
        parts = qualname.split('::')
        pat = []
        for i, p in enumerate(parts):
            if i:
                pat.append('::')
            if p.startswith('operator') and len(p) > 8:
                pat += ['operator', p[8:]]
            else:
                pat.append(p)
        depth = self.depth_map()
        cands = []
        for k, t in enumerate(toks):
            if t.kind != 'id' or t.text != pat[0]:
                continue
            last = seq_at(toks, k, pat)
            if last < 0:
                continue
            # reject if preceded by '::' or '.' or '->' (part of a longer name / a call)
            p = prev_code(toks, k)
            if p >= 0 and toks[p].text in ('.', '->'):
                continue
            lp = next_code(toks, last)
            if lp >= len(toks) or toks[lp].text != '(':
                continue
            rp = match_close(toks, lp)
            b = next_code(toks, rp)
            # allow `const`, `noexcept`
            while b < len(toks) and toks[b].text in ('const', 'noexcept', 'override'):
                b = next_code(toks, b)
            if b >= len(toks) or toks[b].text != '{':
                continue
            cands.append((k, last, lp, rp, b))
        res = []
        for (k, last, lp, rp, b) in cands:
            if len(parts) > 1 or depth[k] == 0 or self._in_namespace_only(k):
                # start of declaration: after previous ';' '}' '{' or pp at same depth
                s = k
                while True:
                    p = prev_code(toks, s)
                    if p < 0 or toks[p].text in (';', '}', '{') or (toks[p].text == ':' and toks[prev_code(toks, p)].text in ('public', 'private', 'protected')):
                        break
                    s = p
                # a statement like `return f(x) {` cannot occur; but a call `f(...)` followed by `{`
                # does not occur in this code base either.  Require a return type token before the
                # name unless it is a constructor (A::A).
                if s == k and not (len(parts) >= 2 and parts[-2] == parts[-1]):
                    continue
                res.append((s, last, lp, rp, b, match_close(toks, b), False))
        if len(parts) == 2 and not res:
            # in-class definition
            ck, cb, ce = self.find_class(parts[0])
            for k in range(cb + 1, ce):
                t = toks[k]
                if t.kind == 'id' and t.text == parts[1] and depth[k] == depth[cb] + 1:
                    lp = next_code(toks, k)
                    if toks[lp].text != '(':
                        continue
                    rp = match_close(toks, lp)
                    b = next_code(toks, rp)
                    if toks[b].text != '{':
                        continue
                    s = k
                    while True:
                        p = prev_code(toks, s)
                        if toks[p].text in (';', '}', '{', ':'):
                            break
                        s = p
                    res.append((s, k, lp, rp, b, match_close(toks, b), True))
        if len(res) != 1:
            raise ExtractError(f'{self.path}: expected exactly one definition of {qualname}, found {len(res)}')
        return res[0]

    def _in_namespace_only(self, k):
        return False

    def function_tokens(self, qualname):
        s, nm, lp, rp, lb, rb, inclass = self.find_function(qualname)
        return [Tok(t.kind, t.text, t.pos) for t in self.toks[s:rb + 1]], (nm - s, lp - s, rp - s, lb - s, rb - s), inclass


class RuleLog:
    UNIFORM = ('N5',)

    def __init__(self):
        self.counts = {}
        self.notes = []

    def fire(self, rule, fn, n=1, note=None):
        key = (rule, fn)
        self.counts[key] = self.counts.get(key, 0) + n
        if note:
            self.notes.append(f'{rule} {fn}: {note}')

    def check(self, expected):
        """Compare the applications with the counts recorded when the unit was written.  A difference means the
        code changed shape; it is reported in the evidence, not treated as an error: every construct a rule would have
        rewritten is rejected by CBMC's front end if left alone (exit 2), except `auto`, which `leftovers` catches."""
        for key, n in expected.items():
            if self.counts.get(key, 0) != n:
                self.notes.append(f'{key[0]} in {key[1]}: {self.counts.get(key, 0)} applications (unit was written with {n})')

    def as_dict(self):
        return {f'{r}:{f}': n for (r, f), n in sorted(self.counts.items())}


# ---------------------------------------------------------------- N8: opcode slicing

def switch_cases(toks, lb, rb, switch_expr_tokens):
    """find `switch (<expr>) {` inside toks[lb:rb]; return list of (label_text, block_open, block_close)"""
    k = lb
    while k < rb:
        if toks[k].kind == 'id' and toks[k].text == 'switch':
            lp = next_code(toks, k)
            rp = match_close(toks, lp)
            inner = [t.text for t in toks[lp + 1:rp] if is_code(t)]
            if inner == switch_expr_tokens:
                sb = next_code(toks, rp)
                se = match_close(toks, sb)
                cases = []
                j = sb + 1
                while j < se:
                    if toks[j].kind == 'id' and toks[j].text == 'case':
                        lab = []
                        q = next_code(toks, j)
                        while toks[q].text != ':':
                            lab.append(toks[q].text)
                            q = next_code(toks, q)
                        bo = next_code(toks, q)
                        if toks[bo].text != '{':
                            raise ExtractError('N8: case body is not a braced block: ' + ''.join(lab))
                        bc = match_close(toks, bo)
                        cases.append((''.join(lab), bo, bc))
                        j = bc + 1
                        continue
                    j += 1
                return cases
        k += 1
    raise ExtractError('N8: switch not found')


def slice_switch(ftoks, lb, rb, switch_expr, keep_label, log, fn):
    """N8: replace the bodies of all case blocks except keep_label by a failing assertion."""
    cases = switch_cases(ftoks, lb, rb, switch_expr)
    labels = [c[0] for c in cases]
    if keep_label not in labels:
        raise ExtractError(f'N8: case {keep_label} not found in {fn} (have {labels})')
    out = list(ftoks)
    for lab, bo, bc in sorted(cases, key=lambda c: -c[1]):
        if lab == keep_label:
            continue
        out[bo + 1:bc] = [Tok('ws', ' ', -1), Tok('id', '__CPROVER_assert', -1), Tok('op', '(', -1), Tok('num', '0', -1),
                          Tok('op', ',', -1), Tok('str', '"slice: foreign case entered"', -1), Tok('op', ')', -1),
                          Tok('op', ';', -1), Tok('ws', ' ', -1)]
        log.fire('N8', fn)
    return out, labels


# ---------------------------------------------------------------- N7: redirect calls to functions under contract

def redirect_member_call(ftoks, body_lo, body_hi, method, wrapper, log, fn):
    """N7: `[this->]method(args)` -> `wrapper(this[, args])` inside toks[body_lo:body_hi]"""
    out = list(ftoks)
    k = body_hi
    n = 0
    while k > body_lo:
        t = out[k]
        if t.kind == 'id' and t.text == method:
            nx = next_code(out, k)
            if nx < len(out) and out[nx].text == '(':
                p = prev_code(out, k)
                start = k
                if out[p].text == '->' and out[prev_code(out, p)].text == 'this':
                    start = prev_code(out, p)
                elif out[p].text in ('.', '->', '::'):
                    k -= 1
                    continue
                close = match_close(out, nx)
                has_args = any(is_code(x) for x in out[nx + 1:close])
                repl = [Tok('id', wrapper, -1), Tok('op', '(', -1), Tok('id', 'this', -1)]
                if has_args:
                    repl += [Tok('op', ',', -1), Tok('ws', ' ', -1)]
                out[start:nx + 1] = repl
                n += 1
        k -= 1
    if n:
        log.fire('N7', fn, n)
    return out


# ---------------------------------------------------------------- statement-level rewrites (N1, N2, N4, N5, N6, N11)

def _mk(kind, text):
    return Tok(kind, text, -1)


def _retok(text):
    from cpptok import tokenize as _t
    return [Tok(t.kind, t.text, -1) for t in _t(text)]


def find_stmt_end(toks, k):
    """index of the ';' ending the statement that starts at k (brackets matched)"""
    j = k
    while j < len(toks):
        t = toks[j]
        if t.kind == 'op' and t.text in ('(', '{', '['):
            j = match_close(toks, j)
        elif t.kind == 'op' and t.text == ';':
            return j
        j += 1
    raise ExtractError('statement end not found')


def leftovers(text, what):
    """constructs that CBMC would silently mis-handle must not survive normalisation"""
    from cpptok import tokenize as _t
    toks = [t for t in _t(text) if t.kind not in ('ws', 'com')]
    for k, t in enumerate(toks):
        if t.kind == 'id' and t.text == 'auto':
            raise ExtractError(f'{what}: an `auto` declaration survived normalisation (CBMC would read it as int): near `{" ".join(x.text for x in toks[k:k+6])}`')


def rewrite_auto(ftoks, lo, types, log, fn):
    """N6: `auto [&] v = e;` / `auto const &v` -> declared type.  types: {varname: 'T'} (every entry must fire once)"""
    out = list(ftoks)
    fired = set()
    k = lo
    while k < len(out):
        t = out[k]
        if t.kind == 'id' and t.text == 'auto':
            j = next_code(out, k)
            quals = []
            while out[j].text in ('const', '&', '&&', '*'):
                quals.append(out[j].text)
                j = next_code(out, j)
            var = out[j].text
            nx = next_code(out, j)
            if out[nx].text == '=' and var in types:
                out[k] = _mk('id', types[var])
                fired.add(var)
                log.fire('N6', fn)
        k += 1
    return out


def rewrite_range_for(ftoks, lo, specs, log, fn, unit_globals=None):
    """N1: `for (D v : E) BODY` ->
         { CT *__rng = &(E); IT __it = __rng->begin(); IT __end = __rng->end();
           for (; __it != __end; ++__it) { ED v = *__it; BODY } }
    which is the desugaring the C++ standard prescribes ([stmt.ranged]).  specs: list of dicts
    {var, container_type, iter_type, elem_decl, [tag]} matched in source order by `var`.
    With unit_globals (a list) the three hidden variables are emitted as unit-level globals named
    __rng_<tag>, __it_<tag>, __end_<tag> (rule N10: locals of functions with explicit parameters cannot be
    named in loop contracts)."""
    out = list(ftoks)
    todo = list(specs)
    k = lo
    while k < len(out) and todo:
        t = out[k]
        if t.kind == 'id' and t.text == 'for':
            lp = next_code(out, k)
            rp = match_close(out, lp)
            # find ':' at depth 0 inside the parens (not '::')
            colon = None
            depth = 0
            for j in range(lp + 1, rp):
                x = out[j]
                if x.kind == 'op' and x.text in ('(', '[', '{'):
                    depth += 1
                elif x.kind == 'op' and x.text in (')', ']', '}'):
                    depth -= 1
                elif x.kind == 'op' and x.text == ':' and depth == 0:
                    colon = j
                    break
                elif x.kind == 'op' and x.text == ';':
                    break
            if colon is not None:
                decl = [x for x in out[lp + 1:colon] if is_code(x)]
                var = decl[-1].text
                sp = todo[0]
                if sp['var'] != var:
                    raise ExtractError(f'N1 in {fn}: next range-for declares `{var}`, unit expects `{sp["var"]}`')
                todo.pop(0)
                expr = untok(out[colon + 1:rp]).strip()
                b = next_code(out, rp)
                if out[b].text == '{':
                    be = match_close(out, b)
                    body = out[b + 1:be]
                    end = be
                else:
                    se = find_stmt_end(out, b)
                    body = out[b:se + 1]
                    end = se
                tag = sp.get('tag')
                ct, it, ed = sp['container_type'], sp['iter_type'], sp['elem_decl']
                if unit_globals is not None and tag and sp.get('global_iters'):
                    rng, itv, endv = '__rng', f'__it_{tag}', f'__end_{tag}'
                    unit_globals.append(f'extern "C" {{ {sp["global_iters"]} {itv}; {sp["global_iters"]} {endv}; }}')
                    head = f'{{ {ct} *{rng} = &({expr}); {itv} = {rng}->begin(); {endv} = {rng}->end(); '
                elif tag:
                    rng, itv, endv = f'__rng_{tag}', f'__it_{tag}', f'__end_{tag}'
                    head = f'{{ {ct} *{rng} = &({expr}); {it} {itv} = {rng}->begin(); {it} {endv} = {rng}->end(); '
                else:
                    rng, itv, endv = '__rng', '__it', '__end'
                    head = f'{{ {ct} *{rng} = &({expr}); {it} {itv} = {rng}->begin(); {it} {endv} = {rng}->end(); '
                head += f'for (; {itv} != {endv}; ++{itv}) {{ {ed} = *{itv}; '
                if sp.get('hook'):
                    # N12: assume-at-use hook (ghost statement): instantiates a universal precondition over the
                    # immutable tables at exactly the element read (DESIGN.md 3.3); defined in the contract unit
                    head += f'{sp["hook"]}({sp.get("hook_arg", var)}); '
                    log.fire('N12', fn)
                new = _retok(head) + body + _retok(' } }')
                out[k:end + 1] = new
                log.fire('N1', fn)
                # continue scanning inside the rewritten text (nested range-for in the body)
                k += 1
                continue
        k += 1
    if todo:
        raise ExtractError(f'N1 in {fn}: range-for over `{todo[0]["var"]}` not found')
    return out


def rewrite_aggregate_decl(ftoks, lo, specs, log, fn):
    """N2: `T x = {e1, e2};` or `T x = {.a = e1, .b = e2};` -> `T x; x.f1 = e1; x.f2 = e2;`
    specs: list of {type, var, fields:[f1,f2,...]} (positional fields from the struct declaration)"""
    out = list(ftoks)
    for sp in specs:
        done = False
        k = lo
        while k < len(out):
            if out[k].kind == 'id' and out[k].text == sp['var']:
                eq = next_code(out, k)
                br = next_code(out, eq)
                if out[eq].text == '=' and out[br].text == '{':
                    # type tokens precede var up to previous ';' '{' '}'
                    s = k
                    while True:
                        p = prev_code(out, s)
                        if out[p].text in (';', '{', '}'):
                            break
                        s = p
                    be = match_close(out, br)
                    semi = next_code(out, be)
                    if out[semi].text != ';':
                        k += 1
                        continue
                    items = [[]]
                    depth = 0
                    for x in out[br + 1:be]:
                        if x.kind == 'op' and x.text in ('(', '[', '{'):
                            depth += 1
                        elif x.kind == 'op' and x.text in (')', ']', '}'):
                            depth -= 1
                        if x.kind == 'op' and x.text == ',' and depth == 0:
                            items.append([])
                        else:
                            items[-1].append(x)
                    items = [it for it in items if any(is_code(x) for x in it)]
                    tyt = untok(out[s:k]).strip()
                    stmts = f'{tyt} {sp["var"]}; '
                    for idx, it in enumerate(items):
                        ctoks = [x for x in it if is_code(x)]
                        if ctoks[0].text == '.':
                            fld = ctoks[1].text
                            e = untok(it).split('=', 1)[1].strip()
                        else:
                            fld = sp['fields'][idx]
                            e = untok(it).strip()
                        stmts += f'{sp["var"]}.{fld} = {e}; '
                    out[s:semi + 1] = _retok(stmts)
                    log.fire('N2', fn)
                    done = True
                    break
            k += 1
        if not done:
            raise ExtractError(f'N2 in {fn}: `{sp["type"]} {sp["var"]} = {{...}}` not found')
    return out


class LitTable:
    """ids of string literals: fixed per distinct literal text (equal text <=> equal id); negative and far from 0 so
    that the ids are recognisable in traces.  Emitted as #defines for the contract units."""

    def __init__(self):
        self.ids = {}

    def id_of(self, lit_tok_text):
        if lit_tok_text not in self.ids:
            self.ids[lit_tok_text] = -1000 - len(self.ids)
        return self.ids[lit_tok_text]

    def header(self):
        out = ['/* GENERATED: ids of the string literals of this unit (rule N5) */']
        used = set()
        for text, i in sorted(self.ids.items(), key=lambda kv: -kv[1]):
            name = ''.join(ch if ch.isalnum() else '_' for ch in text[1:-1])[:40] or 'EMPTY'
            while name in used:
                name += '_'
            used.add(name)
            out.append(f'#define LIT_{name} ({i}L) /* {text} */')
        return '\n'.join(out) + '\n'


def rewrite_string_literals(ftoks, lo, log, fn, lits=None):
    """N5: "lit" -> std::string(<id>, "lit"): CBMC resolves `"lit" + std::string` through a free operator+ wrongly; the id
    makes equal literal texts equal strings (model/include/string)"""
    # adjacent string literals are one literal (translation phase 6)
    merged = []
    for t in ftoks:
        if t.kind == 'str':
            j = len(merged) - 1
            while j >= 0 and merged[j].kind in ('ws', 'com'):
                j -= 1
            if j >= 0 and merged[j].kind == 'str':
                merged[j] = Tok('str', merged[j].text[:-1] + t.text[1:], merged[j].pos)
                del merged[j + 1:]
                continue
        merged.append(t)
    ftoks = merged
    out = []
    for i, t in enumerate(ftoks):
        if i >= lo and t.kind == 'str':
            p = prev_code(ftoks, i)
            # already wrapped: std::string("...")
            if p >= 0 and ftoks[p].text == '(' and ftoks[prev_code(ftoks, p)].text == 'string':
                out.append(t)
                continue
            out += [_mk('id', 'std'), _mk('op', '::'), _mk('id', 'string'), _mk('op', '(')]
            if lits is not None:
                out += [_mk('num', str(lits.id_of(t.text)) + 'L'), _mk('op', ','), _mk('ws', ' ')]
            out += [t, _mk('op', ')')]
            log.fire('N5', fn)
        else:
            out.append(t)
    return out


def rewrite_temp_aggregate(ftoks, lo, specs, log, fn, helpers):
    """N11: aggregate temporary `T{e1, e2}` -> `__mk_T(e1, e2)`; helper definitions are appended to `helpers`.
    specs: list of {type, fields:[(ftype, fname), ...]}"""
    out = list(ftoks)
    for sp in specs:
        k = lo
        n = 0
        while k < len(out):
            if out[k].kind == 'id' and out[k].text == sp['type']:
                b = next_code(out, k)
                if b < len(out) and out[b].text == '{':
                    p = prev_code(out, k)
                    if out[p].text in ('struct', 'class'):
                        k += 1
                        continue
                    e = match_close(out, b)
                    out[b] = _mk('op', '(')
                    out[e] = _mk('op', ')')
                    out[k] = _mk('id', '__mk_' + sp['type'])
                    n += 1
            k += 1
        if n == 0:
            raise ExtractError(f'N11 in {fn}: no `{sp["type"]}{{...}}` temporary found')
        log.fire('N11', fn, n)
        params = ', '.join(f'{ft} a{i}' for i, (ft, fnm) in enumerate(sp['fields']))
        body = ' '.join(f't.{fnm} = a{i};' for i, (ft, fnm) in enumerate(sp['fields']))
        h = f'static {sp["type"]} __mk_{sp["type"]}({params}) {{ {sp["type"]} t; {body} return t; }}'
        if h not in helpers:
            helpers.append(h)
    return out


def rewrite_clear_assign(ftoks, lo, members, log, fn):
    """N4: `X = {};` on a container member -> `X.clear();`  members: list of member-expression token texts"""
    out = list(ftoks)
    for mem in members:
        pat = [t.text for t in _retok(mem) if is_code(t)]
        k = lo
        done = False
        while k < len(out):
            if out[k].text == pat[0]:
                last = seq_at(out, k, pat)
                if last >= 0:
                    eq = next_code(out, last)
                    b = next_code(out, eq)
                    if out[eq].text == '=' and out[b].text == '{':
                        e = match_close(out, b)
                        if not any(is_code(x) for x in out[b + 1:e]):
                            out[eq:e + 1] = _retok('.clear()')
                            log.fire('N4', fn)
                            done = True
                            break
            k += 1
        if not done:
            raise ExtractError(f'N4 in {fn}: `{mem} = {{}}` not found')
    return out


# ---------------------------------------------------------------- N2 (designated, nested) / N3 / N13

def _split_top(toks):
    """split a token list at top-level commas; returns list of token lists"""
    items, depth = [[]], 0
    for x in toks:
        if x.kind == 'op' and x.text in ('(', '[', '{'):
            depth += 1
        elif x.kind == 'op' and x.text in (')', ']', '}'):
            depth -= 1
        if x.kind == 'op' and x.text == ',' and depth == 0:
            items.append([])
        else:
            items[-1].append(x)
    return [it for it in items if any(is_code(x) for x in it)]


def _designated_assignments(prefix, toks, out):
    """toks: the tokens between the braces of `{.a = e, .b = {.c = e2}}` -> out gets (path, expr_text)"""
    for it in _split_top(toks):
        c = [x for x in it if is_code(x)]
        if c[0].text != '.':
            raise ExtractError('N2: positional element inside a designated initialiser: ' + untok(it).strip())
        fld = c[1].text
        # expression after '='
        k = 0
        while it[k].text != '=':
            k += 1
        rhs = it[k + 1:]
        rc = [x for x in rhs if is_code(x)]
        if rc and rc[0].text == '{':
            b = rhs.index(rc[0])
            e = match_close(rhs, b)
            inner = rhs[b + 1:e]
            if not any(is_code(x) for x in inner):
                continue  # `.x = {}`: value-initialised / empty container: nothing to assign
            ic = [x for x in inner if is_code(x)]
            if ic[0].text == '.':
                _designated_assignments(prefix + fld + '.', inner, out)
                continue
        out.append((prefix + fld, untok(rhs).strip()))


def rewrite_designated(ftoks, lo, specs, log, fn):
    """N2 (designated form, nested): `T x = {.a = e, .b = {.c = e2}};` -> `T x; x.a = e; x.b.c = e2;`
       and `return {.a = e, ...};` -> `{ T __r; __r.a = e; ...; return __r; }` (spec var '@return', type T).
       specs: list of {var, type, [extra: ['x.f = 0', ...]]}"""
    out = list(ftoks)
    for sp in specs:
        k = lo
        done = False
        while k < len(out):
            t = out[k]
            if sp['var'] == '@return' and t.kind == 'id' and t.text == 'return':
                b = next_code(out, k)
                if out[b].text == '{':
                    e = match_close(out, b)
                    semi = next_code(out, e)
                    asg = []
                    _designated_assignments('', out[b + 1:e], asg)
                    # aggregate initialisation value-initialises every member that is not named: scalar members that the
                    # initialiser does not name are zeroed by the unit's `pre` list (class-type members run their default ctor)
                    txt = f'{{ {sp["type"]} __r; ' + ''.join(x.replace('@', '__r') + '; ' for x in sp.get('pre', [])) + ' '.join(f'__r.{p} = {x};' for p, x in asg)
                    txt += ' '.join(' ' + x.replace('@', '__r') + ';' for x in sp.get('extra', []))
                    txt += ' return __r; }'
                    out[k:semi + 1] = _retok(txt)
                    log.fire('N2', fn)
                    done = True
                    break
            elif sp['var'] != '@return' and t.kind == 'id' and t.text == sp['var']:
                eq = next_code(out, k)
                b = next_code(out, eq)
                if out[eq].text == '=' and out[b].text == '{':
                    s = k
                    while True:
                        p = prev_code(out, s)
                        if out[p].text in (';', '{', '}'):
                            break
                        s = p
                    if s == k:
                        k += 1
                        continue
                    e = match_close(out, b)
                    semi = next_code(out, e)
                    asg = []
                    _designated_assignments('', out[b + 1:e], asg)
                    tyt = untok(out[s:k]).strip()
                    txt = f'{tyt} {sp["var"]}; ' + ' '.join(f'{sp["var"]}.{p} = {x};' for p, x in asg)
                    txt += ' '.join(' ' + x.replace('@', sp['var']) + ';' for x in sp.get('extra', []))
                    out[s:semi + 1] = _retok(txt)
                    log.fire('N2', fn)
                    done = True
                    break
            k += 1
        if not done:
            raise ExtractError(f'N2 in {fn}: designated initialiser for `{sp["var"]}` not found')
    return out


def rewrite_braced_arg(ftoks, lo, specs, log, fn):
    """N3: `X.push_back({e1,...,ek});` -> `{ T __t; __t.f1 = e1; ...; X.push_back(__t); }`
       also designated form `{.a = e, ...}`.  specs (matched in source order):
       {method:'push_back', type:'T', fields:[...], [extra:['@.argnum = 0']]}"""
    out = list(ftoks)
    todo = list(specs)
    k = lo
    while k < len(out) and todo:
        t = out[k]
        if t.kind == 'id' and t.text == todo[0]['method']:
            lp = next_code(out, k)
            b = next_code(out, lp)
            if out[lp].text == '(' and out[b].text == '{':
                sp = todo.pop(0)
                e = match_close(out, b)
                rp = next_code(out, e)
                semi = next_code(out, rp)
                if out[rp].text != ')' or out[semi].text != ';':
                    raise ExtractError(f'N3 in {fn}: unexpected shape after braced argument')
                # start of the statement
                s = k
                while True:
                    p = prev_code(out, s)
                    if out[p].text in (';', '{', '}', ')') and not (out[p].text == ')' and False):
                        break
                    s = p
                inner = out[b + 1:e]
                ic = [x for x in inner if is_code(x)]
                asg = []
                if ic and ic[0].text == '.':
                    _designated_assignments('', inner, asg)
                else:
                    for idx, it in enumerate(_split_top(inner)):
                        asg.append((sp['fields'][idx], untok(it).strip()))
                recv = untok(out[s:k]).strip()  # `this->errors.`
                txt = f'{{ {sp["type"]} __t; ' + ' '.join(f'__t.{p} = {x};' for p, x in asg)
                txt += ''.join(' ' + x.replace('@', '__t') + ';' for x in sp.get('extra', []))
                txt += f' {recv}{sp["method"]}(__t); }}'
                out[s:semi + 1] = _retok(txt)
                log.fire('N3', fn)
                continue
        k += 1
    if todo:
        raise ExtractError(f'N3 in {fn}: `{todo[0]["method"]}({{...}})` not found')
    return out


def strip_nsdmi(stoks, log, fn):
    """N13: default member initialisers `T m = {};` / `int m = 0;` inside a struct definition are removed (the
    front end does not support them); returns (tokens, {member: init_text}).  The initial values are re-applied
    explicitly at every aggregate construction site by the N2/N3 `extra` lists of the unit."""
    out = list(stoks)
    inits = {}
    # struct body
    b = 0
    while out[b].text != '{':
        b += 1
    e = match_close(out, b)
    k = b + 1
    depth = 0
    stmt_start = k
    while k < e:
        t = out[k]
        if t.kind == 'op' and t.text == '{':
            # function body or nested: skip unless it is an initialiser (preceded by '=')
            p = prev_code(out, k)
            if out[p].text == '=':
                ee = match_close(out, k)
                semi = next_code(out, ee)
                name = out[prev_code(out, p)].text
                inits[name] = untok(out[k:ee + 1])
                del out[p:ee + 1]
                e -= (ee + 1 - p)
                log.fire('N13', fn)
                k = p
                continue
            k = match_close(out, k) + 1
            continue
        if t.kind == 'op' and t.text == '(':
            k = match_close(out, k) + 1
            continue
        if t.kind == 'op' and t.text == '=':
            # scalar initialiser: `int argnum = 0;`
            semi = k
            while out[semi].text != ';':
                semi += 1
            name = out[prev_code(out, k)].text
            inits[name] = untok(out[k + 1:semi]).strip()
            del out[k:semi]
            e -= (semi - k)
            log.fire('N13', fn)
            continue
        k += 1
    return out, inits


def rewrite_range_for_tbl(ftoks, lo, table, tags, log, fn, unit_globals=None):
    """N1, table driven: every range-for in toks[lo:] is desugared; the container/iterator/element types come from `table`,
    a list of (regex on the range expression text, spec).  The k-th loop found gets tags[k] (or '<fn-tag>k' beyond the list),
    so a change that removes or adds a loop still extracts; an unknown range expression is an ExtractError."""
    import re as _re
    out = list(ftoks)
    k = lo
    n = 0
    while k < len(out):
        t = out[k]
        if t.kind == 'id' and t.text == 'for':
            lp = next_code(out, k)
            rp = match_close(out, lp)
            colon = None
            depth = 0
            for j in range(lp + 1, rp):
                x = out[j]
                if x.kind == 'op' and x.text in ('(', '[', '{'):
                    depth += 1
                elif x.kind == 'op' and x.text in (')', ']', '}'):
                    depth -= 1
                elif x.kind == 'op' and x.text == ':' and depth == 0:
                    colon = j
                    break
                elif x.kind == 'op' and x.text == ';':
                    break
            if colon is not None:
                expr = ' '.join(untok(out[colon + 1:rp]).split())
                sp = None
                for rx, cand in table:
                    if _re.fullmatch(rx, expr):
                        sp = dict(cand)
                        break
                if sp is None:
                    raise ExtractError(f'N1 in {fn}: no type information for the range expression `{expr}`')
                decl = [x for x in out[lp + 1:colon] if is_code(x)]
                sp['var'] = decl[-1].text
                sp['elem_decl'] = sp['elem_decl'].replace('@', sp['var'])
                sp['tag'] = tags[n] if n < len(tags) else f'{tags[0][:3] if tags else "l"}x{n}'
                if sp.get('hook_arg'):
                    sp['hook_arg'] = sp['hook_arg'].replace('@', sp['var'])
                n += 1
                seg = rewrite_range_for(out[k:], 0, [sp], log, fn, unit_globals=unit_globals)
                out[k:] = seg
                k += 1
                continue
        k += 1
    return out


def rewrite_auto_tbl(ftoks, lo, table, log, fn):
    """N6, table driven: `auto [&] v = E.find(...)` / `E.begin()` / `E.end()` -> `<container type of E>::iterator v = ...`.
    table: list of (regex on the text of E, container type).  Declarations that do not match stay (and are then caught by
    the leftover scan)."""
    import re as _re
    out = list(ftoks)
    k = lo
    while k < len(out):
        t = out[k]
        if t.kind == 'id' and t.text == 'auto':
            j = next_code(out, k)
            while out[j].text in ('const', '&', '&&'):
                j = next_code(out, j)
            eq = next_code(out, j)
            if out[eq].text == '=':
                semi = find_stmt_end(out, eq)
                rhs = ' '.join(untok(out[eq + 1:semi]).split())
                m = _re.fullmatch(r'(.+?)\s*\.\s*(find|begin|end)\s*\(.*\)', rhs)
                if m:
                    for rx, ct in table:
                        if _re.fullmatch(rx, m.group(1).replace(' ', '')):
                            out[k] = _mk('id', ct + '::iterator')
                            log.fire('N6', fn)
                            break
                else:
                    # `auto [const] [&] v = E;` where E itself is a known container expression: v has E's type
                    for rx, ct in table:
                        if _re.fullmatch(rx, rhs.replace(' ', '')):
                            out[k] = _mk('id', ct)
                            log.fire('N6', fn)
                            break
        k += 1
    return out


def rewrite_braced_assign(ftoks, lo, log, fn):
    """N4b: `LHS = {e1, ..., ek};` where LHS is an expression (not a declaration) -> `{ LHS.clear(); LHS.push_back(e1); ... }`
    - the meaning of assigning an initializer list to a std::vector (the front end rejects the braced form).
    `LHS = {};` becomes `LHS.clear();` (rule N4)."""
    out = list(ftoks)
    k = lo
    while k < len(out):
        if out[k].kind == 'op' and out[k].text == '=' and next_code(out, k) < len(out) and out[next_code(out, k)].text == '{':
            b = next_code(out, k)
            e = match_close(out, b)
            semi = next_code(out, e)
            if semi < len(out) and out[semi].text == ';':
                s = k
                while True:
                    p = prev_code(out, s)
                    if p < 0 or out[p].text in (';', '{', '}'):
                        break
                    s = p
                lhs = [x for x in out[s:k] if is_code(x)]
                decl = any(lhs[i].kind == 'id' and lhs[i + 1].kind == 'id' for i in range(len(lhs) - 1)) or \
                    any(x.text in ('>', '*', '&') for x in lhs[:-1] if x.kind == 'op') and lhs[-1].kind == 'id' and len(lhs) >= 2 and lhs[-2].text in ('>', '*', '&')
                if lhs and not decl and lhs[0].text not in ('return',):
                    lt = untok(out[s:k]).strip()
                    items = _split_top(out[b + 1:e])
                    if any(is_code(x) and x.text == '.' and i == 0 for it in items for i, x in enumerate([y for y in it if is_code(y)])):
                        k += 1
                        continue  # designated initialiser: not a vector assignment
                    txt = '{ ' + lt + '.clear(); ' + ' '.join(f'{lt}.push_back({untok(it).strip()});' for it in items) + ' }'
                    out[s:semi + 1] = _retok(txt)
                    log.fire('N4b', fn)
                    k = s
        k += 1
    return out
