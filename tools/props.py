"""Per-property configuration: which obligation groups decide it, what is claimed, what is trusted."""

TRUSTED_COMMON = [
    'T1: model/include/{vector,map,set,string,utility,algorithm} implement the C++ standard semantics of the container operations used (trusted model, not libstdc++ itself)',
    'T2: no reference/iterator into a vector is used after a push_back on it (reallocation is not modelled)',
    'T3: memory allocation succeeds (push_back assumes spare capacity; contracts require capacity for PREPARE) and sizes fit int (data.size()+count <= INT_MAX)',
    'T4: std::string content is not modelled (opaque value with equality/order)',
    'CBMC 6.11 C++ front end lays classes out packed; the C mirror structs are generated from the real headers and every member offset is discharged as a layout obligation on each run',
    'goto-cc/goto-instrument/cbmc 6.11.0 and the SAT back end (MiniSat 2.2.1 built in) are trusted',
    'machine arithmetic is bit-precise (int = 32 bit two\'s complement, size_t = 64 bit); nothing is treated as mathematical integers',
]

PROPS = {}


def prop(pid, **kw):
    PROPS[pid] = kw


STEP_NOTE = ('Every one of the 12 opcode cases of the real Theo::VM::executeSingle (extracted verbatim on each run, '
             'N8-sliced per opcode) is enforced by goto-instrument --dfcc against its variant contract c_step_<OP>: '
             'symbolic program size, data size, stack depth and contents, all up to INT_MAX; the only loop (PREPARE zero-fill) is '
             'closed by a loop contract (invariant + decreases), so there is no unwinding bound. ')

prop('C19', level='proof',
     claim='Unbounded proof, per opcode, that the real VM::executeSingle preserves the frame-layout invariant (data = exactly the contiguous frames of the live activations) for every program/state satisfying the static typing, with RET releasing the callee frame and PREPARE appending exactly its frame; the induction over steps joining the per-step proofs is the standard invariant argument (not machine-checked).',
     note='Trusted: container model T1-T3, packed class layout (re-checked as layout obligations each run), CBMC itself; assumes the executed program is statically well-typed (compiler side: C03).',
     explanation=STEP_NOTE + 'C19 is invariant I2 (frames contiguous, in call order, data ends with the top frame; instantiated at the '
     'unconstrained ghost index g_k so it holds for every activation) proved preserved by all 12 opcodes, plus the exact deltas: '
     'PREPARE appends exactly count words, RET leaves data.size() == start of the returning frame.',
     not_decided='that every reachable state of a *compiled* program satisfies the static typing WF assumed by the step contracts (compiler side, see C03)',
     trusted=['the static typing (fs, pend, isroot ghost arrays) of the executed program exists - established for compiler output only per mechanism (C03)'])


VM_TRUST = ['the static typing (ghost arrays fs/pend/isroot) of the executed program exists; for compiler output it is established per mechanism only (C03 compiler side)']
DBG_TRUST = ['N12 at-use hooks: "every listed site is a breakpoint instruction of the loaded program" and "every enabled location is a key of potential_breaks whose site list is valid memory" are universal preconditions over the immutable program tables (C08 postcondition TBL), instantiated by assumption at the element read',
             'site lists are modelled as slices of one ghost arena object (they are never written by the VM)']

prop('C20', level='proof',
     claim='Unbounded proof on the real VM::executeSingle that ADD_CONST is defined for all operands (CBMC signed-overflow/conversion obligations on the real expression), yields max(x+c,0) whenever that fits the word and some natural number otherwise, and that every opcode keeps all data words in [0, INT_MAX] (ghost word index).',
     note='Trusted: container model T1-T3, CBMC; CONST operands >= 0 is part of the assumed static typing; literal conversion in the compiler (strToInt) is decided by the gen.cpp groups when present.',
     explanation=STEP_NOTE + 'C20: NAT_G (data[g_g] >= 0 for the unconstrained ghost index g_g) is an ensures clause of all 12 step contracts; ADD_CONST has the functional clause and CBMC\'s own overflow obligations on the real 64-bit computation.',
     not_decided='compile-time literal range checks are covered only by the compiler-side groups', trusted=VM_TRUST)

prop('C03', level='proof',
     claim='VM side (complete): type-soundness theorem of the real step function - for every program with a static typing and every state satisfying the dynamic invariant, each step keeps all accesses to data/code/stack inside their arrays (CBMC pointer/bounds obligations + the container model\'s index assertions) and re-establishes the invariant. Compiler side: per-mechanism contracts on gen.cpp where built.',
     note='Trusted: container model, CBMC. Not machine-checked: that a typing exists for every accepted source (whole-traversal invariant of the code generator); the induction over steps.',
     explanation=STEP_NOTE + 'C03 = WF(ip) & Inv => memory safety & Inv\' for every opcode; VM::execute is verified against the general step contract (callee replaced).',
     not_decided='existence of the static typing for every accepted source', trusted=VM_TRUST)

prop('C01', level='proof',
     claim='Half (a) of C01: the 12 step contracts ARE the reference small-step semantics of the bytecode (zeroed frames, copy/constant, x+c, truncated x-c, jumps, call-by-value with fresh zeroed locals, result copied to the caller\'s target, HALT stops) and are proved on the real VM::executeSingle without bound. Half (b) (lowering schemas of gen.cpp) per function where built; the simulation argument joining the halves is not machine-checked.',
     note='Trusted: container model, CBMC. Macros, sugar, includes and the step-budget clause are not decided.',
     explanation=STEP_NOTE + 'C01(a): functional ensures clauses (new ip, written word, untouched words via the assigns clause, new activation record) per opcode.',
     not_decided='lowering correctness as a whole (simulation), macros, includes', trusted=VM_TRUST)

prop('C05', level='proof',
     claim='The step never reads stepping/enabled state except for its return value and break opcodes only advance ip (step contracts, assigns clauses); the debugger mutators change nothing but the enabled set and the op field of breakpoint sites, and only within {POTENTIAL_BREAK, BREAK} (contracts of setBreakPoint/clearBreakpoints/reset/setSteppingMode with ghost code index); non-interference over whole histories follows by induction over API calls (not machine-checked).',
     note='Trusted: container model incl. loop-free map/set lookups, N12 at-use hooks over the immutable tables, CBMC.',
     explanation=STEP_NOTE + 'Debugger functions are extracted with normalisations N1/N2/N5/N6/N11/N12 and enforced against contracts in contracts/vm_dbg.c; loops closed by loop contracts.',
     not_decided='induction over API histories; getActivationVariables', trusted=VM_TRUST + DBG_TRUST)

prop('C06', level='proof',
     claim='executeSingle reports a stop exactly for BREAK, HALT, or POTENTIAL_BREAK while stepping (return-value clauses); execute stops exactly at such a stop (loop contract, callee replaced; partial correctness); getCurrentBreak returns the table entry of ip-1 or none, and none at ip=0; setBreakPoint succeeds exactly for listed locations, switches every site of the line and maintains the enabled set; clearBreakpoints/reset empty it.',
     note='Trusted: container model, N12 hooks, CBMC. "BREAK <=> site of an enabled line" (I5) across histories is the meta-induction over the mutator contracts.',
     explanation=STEP_NOTE + 'Plus contracts of execute, getCurrentBreak, setBreakPoint, clearBreakpoints, reset, setSteppingMode, isDone, accessors.',
     not_decided='termination of execute; whole-history statement', trusted=VM_TRUST + DBG_TRUST)

prop('C17', level='proof',
     claim='reset() establishes the abstract state of a fresh machine (stepping off, ip 0, no data, no activations, nothing enabled, code changed only at site ops) with clearBreakpoints replaced by its contract; HALT has an empty assigns clause and returns true; execute from a halted state assigns nothing (conditional assigns clause); getCurrentBreak at ip 0 is none.',
     note='Trusted: container model, CBMC. "Every later history behaves as on the fresh machine" = equal abstract states + functional contracts (meta-argument). The constructor is not under contract (deep copy of Program is library code).',
     explanation=STEP_NOTE + 'Groups: step_HALT (empty assigns), execute (conditional assigns), dbg_reset, dbg_clearBreakpoints, dbg_isDone, dbg_getCurrentBreak.',
     not_decided='constructor; completeness of the site restore in clearBreakpoints is in the thorough tier', trusted=VM_TRUST + DBG_TRUST)

prop('C08', level='proof', claim='wip', note='wip', explanation='wip')

prop('C02', level='proof', claim='wip', note='wip', explanation='wip')
prop('C04', level='proof', claim='wip', note='wip', explanation='wip')

HOOK_COMMITS = ['019397c']

NOT_APPLICABLE = {
 'C02': 'not yet built in this revision (planned: DESIGN.md section 5)',
 'C04': 'not yet built in this revision (planned: DESIGN.md section 5)',
 'C07': 'not yet built in this revision (planned: DESIGN.md section 5)',
 'C08': 'not yet built in this revision (planned: DESIGN.md section 5)',
 'C09': 'match relation is delegated to LRParser<Accumulation,Token> (class template, std::function actions, lambdas) and selection/splicing live in closures inside apply_macros; none of it passes the CBMC C++ front end even after normalisation, and a hand-lifted copy would be a model (different technique family)',
 'C10': 'a statement about the characters of generated identifiers versus the scanner alphabet and a pass counter inside the same closure-laden function; string content is outside the container model (T4)',
 'C11': 'the bounded pass loop lives inside apply_macros behind lambdas/std::optional/std::min_element that the CBMC C++ front end rejects; only a hand-sliced copy (a model) would be verifiable',
 'C12': 'LR(1) conflict <=> not prefix-deterministic is a language-theoretic theorem over item-set fixpoints; no function contract states it without an inductive derivation spec, and the code is template/std::set<struct> based, outside the front end',
 'C13': 'recognises-exactly-the-grammar needs induction over derivations, which CBMC contracts cannot perform; code outside the C++ front end',
 'C14': 'the oracle is the regular-expression semantics of lexer.l against flex generated DFA tables; a contract can at most bound table indices, equivalence needs an independent regex construction (a model)',
 'C15': 'not yet built in this revision (planned: DESIGN.md section 5)',
 'C16': 'not yet built in this revision (planned: DESIGN.md section 5)',
 'C18': 'not yet built in this revision (planned: DESIGN.md section 5)',
}
