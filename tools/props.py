"""Per-property configuration: which obligation groups decide it, what is claimed, what is trusted."""

TRUSTED_COMMON = [
    'assumed contracts on callees: where a function under contract calls another one, the call is replaced by the callee\'s contract. Callee variants (c_*_callee, c_*_rec, c_*_prog, c_*_g, c_dv_*, c_*_r, c_step_any in VM::execute) restate - by hand, not mechanically - clauses of the contract that is enforced for that callee in its own group, some with a ghost record of the call added; a callee whose own group is a bounded stand-in passes that bound on. Purely trusted (no enforcing group): c_yylex (the flex scanner: any token), c_mS (the macro-extraction grammar S/D/MD/A: shapes only), the strtol/strtoul models (T5), callee-side validity of AST nodes below the node under contract',
    'T1: model/include/{vector,map,set,string,utility,algorithm} implement the C++ standard semantics of the container operations used (trusted model, not libstdc++ itself)',
    'T2: no reference/iterator into a vector is used after a push_back on it (reallocation is not modelled)',
    'T3: memory allocation succeeds (push_back assumes spare capacity; contracts require capacity for PREPARE) and sizes fit int (data.size()+count <= INT_MAX)',
    'T4: std::string content is not modelled (opaque value with equality/order)',
    'CBMC 6.11 C++ front end lays classes out packed; the C mirror structs are generated from the real headers and every member offset is discharged as a layout obligation on each run',
    'goto-cc/goto-instrument/cbmc 6.11.0 and the SAT back end (MiniSat 2.2.1 built in) are trusted',
    'machine arithmetic is bit-precise (int = 32 bit two\'s complement, size_t = 64 bit); nothing is treated as mathematical integers',
]

PROPS = {}


def prop(pid, **kw):
    PROPS[pid] = kw


STEP_NOTE = ('Every one of the 12 opcode cases of the real Theo::VM::executeSingle (extracted verbatim on each run, '
             'N8-sliced per opcode) is enforced by goto-instrument --dfcc against its variant contract c_step_<OP>: '
             'symbolic program size, data size, stack depth and contents, all up to INT_MAX; the only loop (PREPARE zero-fill) is '
             'closed by a loop contract (invariant + decreases), so there is no unwinding bound. ')

prop('C19', level='proof',
     claim='Unbounded proof, per opcode, that the real VM::executeSingle preserves the frame-layout invariant (data = exactly the contiguous frames of the live activations) for every program/state satisfying the static typing, with RET releasing the callee frame and PREPARE appending exactly its frame; the induction over steps joining the per-step proofs is the standard invariant argument (not machine-checked).',
     note='Trusted: container model T1-T3, packed class layout (re-checked as layout obligations each run), CBMC itself; assumes the executed program is statically well-typed (compiler side: C03).',
     explanation=STEP_NOTE + 'C19 is invariant I2 (frames contiguous, in call order, data ends with the top frame; instantiated at the '
     'unconstrained ghost index g_k so it holds for every activation) proved preserved by all 12 opcodes, plus the exact deltas: '
     'PREPARE appends exactly count words, RET leaves data.size() == start of the returning frame.',
     not_decided='that every reachable state of a *compiled* program satisfies the static typing WF assumed by the step contracts (compiler side, see C03)',
     trusted=['the static typing (fs, pend, isroot ghost arrays) of the executed program exists - established for compiler output only per mechanism (C03)'])


VM_TRUST = ['the static typing (ghost arrays fs/pend/isroot) of the executed program exists; for compiler output it is established per mechanism only (C03 compiler side)']
DBG_TRUST = ['N12 at-use hooks: "every listed site is a breakpoint instruction of the loaded program" and "every enabled location is a key of potential_breaks whose site list is valid memory" are universal preconditions over the immutable program tables (C08 postcondition TBL), instantiated by assumption at the element read',
             'site lists are modelled as slices of one ghost arena object (they are never written by the VM)']

prop('C20', level='proof',
     claim='Unbounded proof on the real VM::executeSingle that ADD_CONST is defined for all operands (CBMC signed-overflow/conversion obligations on the real expression), yields max(x+c,0) whenever that fits the word and some natural number otherwise, and that every opcode keeps all data words in [0, INT_MAX] (ghost word index).',
     note='Trusted: container model T1-T3, CBMC; CONST operands >= 0 is part of the assumed static typing; literal conversion in the compiler (strToInt) is decided by the gen.cpp groups when present.',
     explanation='Compiler side: strToInt / strToIntSilent of gen.cpp and strToInt of macro.cpp (priorities, insertion indices) under a strtol model (T5): range error exactly for values >= 2^31-1, exact conversion otherwise, the silently converted constant of the x - c sugar always negatable (found and fixed: -INT_MIN). VM side: ' + STEP_NOTE + 'C20: NAT_G (data[g_g] >= 0 for the unconstrained ghost index g_g) is an ensures clause of all 12 step contracts; ADD_CONST has the functional clause and CBMC\'s own overflow obligations on the real 64-bit computation.',
     not_decided='that strToIntSilent is only reached for literals strToInt has judged (ordering inside dispatchValue)', trusted=VM_TRUST + ['T5: strtol is modelled by its C11 specification on digit strings (ghost value of the string under test)'])

prop('C03', level='proof',
     claim='VM side (complete): type-soundness theorem of the real step function - for every program with a static typing and every state satisfying the dynamic invariant, each step keeps all accesses to data/code/stack inside their arrays (CBMC pointer/bounds obligations + the container model\'s index assertions) and re-establishes the invariant. Compiler side: per-mechanism contracts on gen.cpp where built.',
     note='Trusted: container model, CBMC. Not machine-checked: that a typing exists for every accepted source (whole-traversal invariant of the code generator); the induction over steps.',
     explanation='Compiler side (per mechanism): fetchTemporary/fetchVariableRegister (registers of the frame, frame only grows), dispatchArgs (argnum grows with the frame, duplicate name is an error), popSymbols (table entry = entry/own stack map/arity/frame size), dispatchValue (PREPARE/ARG/EXEC taken from the table entry; arity rule), getMarkPos/dispatchMark/dispatchGoto (labels in range), backpatch (offset = label position - own position; unset label reported; a pending non-jump is an internal error and left alone), Theo::gen (position 0 is the root PREPARE patched with the frame size and stack map the root routine is entered with, and that frame size is the size of the root register table when generation ended; last instruction HALT; backpatch runs once after all code exists), getActivationVariables (bounded: reads only inside its own frame), gen_layout. VM side: ' + STEP_NOTE + 'C03 = WF(ip) & Inv => memory safety & Inv\' for every opcode; VM::execute is verified against the general step contract (callee replaced).',
     not_decided='existence of the static typing for every accepted source', trusted=VM_TRUST)

prop('C01', level='proof',
     claim='Half (a) of C01: the 12 step contracts ARE the reference small-step semantics of the bytecode (zeroed frames, copy/constant, x+c, truncated x-c, jumps, call-by-value with fresh zeroed locals, result copied to the caller\'s target, HALT stops) and are proved on the real VM::executeSingle without bound. Half (b) (lowering schemas of gen.cpp) per function where built; the simulation argument joining the halves is not machine-checked.',
     note='Trusted: container model, CBMC. Macros, sugar, includes and the step-budget clause are not decided.',
     explanation='Half (b), per function with callees replaced: dispatchVoid (each statement kind goes to its own routine exactly once; a sequence generates left then right; STOP is HALT; gen_ast dispatches exactly the root of an error-free tree), dispatchLoop (own counter, decrement + jump back; the back edge targets the JMPC on the counter that precedes the body, the exit label is the end of the construct), dispatchWhile (jump back to its own start label, which is the first instruction of the condition code; exit test before the body), dispatchGoto/dispatchMark (mark table), dispatchAssign, dispatchValue (copy = ADD 0, constant load, call sequence), backpatch, fetch*. Half (a): ' + STEP_NOTE + 'C01(a): functional ensures clauses (new ip, written word, untouched words via the assigns clause, new activation record) per opcode.',
     not_decided='lowering correctness as a whole (simulation), macros, includes', trusted=VM_TRUST)

prop('C05', level='proof',
     claim='The step never reads stepping/enabled state except for its return value and break opcodes only advance ip (step contracts, assigns clauses); the debugger mutators change nothing but the enabled set and the op field of breakpoint sites, and only within {POTENTIAL_BREAK, BREAK} (contracts of setBreakPoint/clearBreakpoints/reset/setSteppingMode with ghost code index); non-interference over whole histories follows by induction over API calls (not machine-checked).',
     note='Trusted: container model incl. loop-free map/set lookups, N12 at-use hooks over the immutable tables, CBMC.',
     explanation=STEP_NOTE + 'Debugger functions are extracted with normalisations N1/N2/N5/N6/N11/N12 and enforced against contracts in contracts/vm_dbg.c; loops closed by loop contracts. getActivationVariables (bounded) and Program::disassemble (bounded) are observers: their frames contain only their results. vm_ctor: a new machine starts with nothing enabled.',
     not_decided='induction over API histories', trusted=VM_TRUST + DBG_TRUST)

prop('C06', level='proof',
     claim='executeSingle reports a stop exactly for BREAK, HALT, or POTENTIAL_BREAK while stepping (return-value clauses); execute stops exactly at such a stop (loop contract, callee replaced; partial correctness); getCurrentBreak returns the table entry of ip-1 or none, and none at ip=0; setBreakPoint succeeds exactly for listed locations, switches every site of the line and maintains the enabled set; clearBreakpoints/reset empty it.',
     note='Trusted: container model, N12 hooks, CBMC. "BREAK <=> site of an enabled line" (I5) across histories is the meta-induction over the mutator contracts.',
     explanation=STEP_NOTE + 'Plus contracts of execute, getCurrentBreak, setBreakPoint, clearBreakpoints, reset, setSteppingMode, isDone, accessors.',
     not_decided='termination of execute; whole-history statement', trusted=VM_TRUST + DBG_TRUST)

prop('C17', level='proof',
     claim='reset() establishes the abstract state of a fresh machine (stepping off, ip 0, no data, no activations, nothing enabled, code changed only at site ops) with clearBreakpoints replaced by its contract; HALT has an empty assigns clause and returns true; execute from a halted state assigns nothing (conditional assigns clause); getCurrentBreak at ip 0 is none.',
     note='Trusted: container model, CBMC. "Every later history behaves as on the fresh machine" = equal abstract states + functional contracts (meta-argument). The constructor is under contract (vm_ctor): its post-state is this abstract state; the deep copy of Program is library code and not expressible in the shallow container model.',
     explanation=STEP_NOTE + 'Groups: step_HALT (empty assigns), execute (conditional assigns), dbg_reset, vm_ctor, dbg_clearBreakpoints, dbg_isDone, dbg_getCurrentBreak, gen_gen (the program ends with HALT).',
     not_decided='the history meta-argument; privateness of the program copy', trusted=VM_TRUST + DBG_TRUST)




GEN_TRUST = ['the gen.cpp unit is the real text of gen.cpp after the logged normalisations N1-N6, N11, N13 (desugarings a C++20 compiler performs itself); Instruction factories are extracted from VM/src/instr.cpp',
             'string literals carry an id fixed per literal text (N5); all other string content is not modelled (T4)']
PARSE_TRUST = ['parser unit: std::vector<Token>::iterator is the index-based model iterator; N9 (new Node() -> model allocator), N10 (C linkage for the free descent functions), N15 (explicit constructor for the reference members of ParseState), N16 (pos->m -> (*pos).m), N17 (Token::Type::X -> Token::X)',
               'the pre-state (token array ending in EOF, cursor, AST) is built by the C harness; Theo::token_string is an arbitrary-string stub',
               'callee contracts are used at call sites (recursion through a second wrapper of the same contract); the textbook LL(1) argument joining the per-production contracts into "no error <=> sentence" is not machine-checked']

prop('C16', level='proof',
     claim='Mechanisms: a RUN of a name that is not in the program table is an UNKNOWN_PROGRAM_NAME error and emits no call of its own; an emitted EXEC enters the entry recorded in the table for that name (dispatchValue); the table entry of a routine is written by popSymbols, i.e. when the routine is finished, with its own entry/stack map/arity/frame size; every LOOP advances the loop number (private counter name) and ends with "counter := counter - 1; jump to the loop head" on one and the same counter register (dispatchLoop). Hence calls only reach finished routines: the call graph is acyclic (meta-argument).',
     note='dispatchValue and popSymbols are BOUNDED stand-ins (<= 2 call arguments; <= 2 marks / <= 2..3 registers / small tables). dispatchProgram is under contract with its callees replaced: popSymbols is called exactly once, after the whole body including RET exists, with the instruction after the skip-jump as entry (ghost record of the call). That funcAddrs has no other writer is not checked mechanically. The step count formula for LOOP programs is not decided.',
     explanation='Groups genU_dispatchValue, genU_popSymbols, gen_dispatchLoop, gen_dispatchProgram, gen_gen (the root routine is closed exactly once, with entry 0, after the tree was generated), parse_S_prod (a PROGRAM definition is parsed as PROGRAM(SPLIT(name, ports), SPLIT(body, MARK(end)))), dbg_reset (no activation survives a reset).',
     not_decided='whole call-graph argument; halting bound', trusted=GEN_TRUST)

prop('C08', level='proof',
     claim='The two breakpoint tables are only changed together and by exact inverse deltas: GenState::breakpoint appends one site to code, one entry to line_info and the site to the list of the current position (a new entry when there is none); GenState::removeTopPotBreak removes exactly the top site from both tables (erasing the key only when its list becomes empty); GenState::advanceLine emits at most one site and none for the hidden standard-macro file; VM::setBreakPoint succeeds exactly for listed locations. The global invariant "tables are inverse" follows by induction over these deltas (meta-argument).',
     note='getNextPos/getMarkPos are proved without bound. breakpoint/removeTopPotBreak/advanceLine/setBreakPoint are BOUNDED in the number of table entries (<= 8 quick, <= 24/16 thorough; contents, code size and site-list lengths symbolic): byte-granular access to symbolic-size arrays of 12/36-byte structs exhausts the SAT back end. Bounded groups are listed separately and not counted as discharged. "Every location is a line on which a token stands" is decided only as far as locations are copied from node positions (parser contracts, C04/C07).',
     explanation='Contracts in contracts/gen_tbl.c on the real GenState member functions (gen unit = all of gen.cpp through the front end). Universal conclusions use unconstrained ghost indices (other line_info entry g_l, other potential_breaks entry g_o, list position g_s).',
     not_decided='that no other code touches the tables (supported by a token scan only); scanner-assigned positions', trusted=GEN_TRUST)

SCAN_TRUST = ['scan unit: the flex scanner is outside - yylex is a trusted contract (may write any token and return any value), yylex_init/yy_scan_string/yyset_lineno/yyset_extra/yy_delete_buffer/yylex_destroy are stubs; ScannerInfo objects are opaque handles (N9); N12: the index found by contains() is the witness of the following operator[] on the file map (the model then asserts that operator[] finds the key), vectors of Theo::scan reserve their storage before the driver loop; N18 (return {a, b} -> aggregate of the declared return type)']

prop('C07', level='proof',
     claim='Mechanisms only: a site is emitted exactly when generation moves to another line/file, never for __standards__ (advanceLine); labels resolve to the site just emitted (getMarkPos); END keywords are kept as NAME nodes made from the END token itself (matchmk contract: node carries the position of the token under the cursor); getCurrentBreak reports the table entry of the instruction just passed.',
     note='The sequence of stops of a whole stepping run and the source-level values at each stop are NOT decided (needs the simulation argument of C01). advanceLine is bounded in the number of table entries (see C08).',
     explanation='Groups gen_getMarkPos, genB_advanceLine, genB_breakpoint, gen_dispatchVoid (advanceLine is consulted first for every node; the PROGRAM header site is taken back before the program is generated and for no other statement), gen_dispatchWhile/gen_dispatchLoop (the header site lies before the loop head: visited once per entry), gen_dispatchMark, dbg_reset (no activation survives a reset), parse_matchmk, parse_mk, parse_P, parse_S, dbg_getCurrentBreak, dbg_getActivations.',
     not_decided='whole-run stepping sequence; getActivationVariables; popSymbols stack maps', trusted=GEN_TRUST + PARSE_TRUST)

prop('C02', level='proof',
     claim='Parser: every descent function (S, P, PORTS, OPORTS, ARGS, MARGS, MOREP, VALUE, VARGS, MVARGS, expected_end_or_semicolon) and ParseState::lookahead/match/matchmk and AST::mk are memory safe for every token array ending in EOF, never move the cursor past EOF or backwards, only grow the error list, return either no node or a freshly recorded node exactly as documented - with callees replaced by contracts, so every dereference of a callee result is checked against what the callee may return. Literal conversion (strToInt) reports a range error exactly for values >= 2^31-1. Scanner driver (Theo::scan, bounded stand-in): memory safe, ends the stream with one EOF token located at the last scanned token (or main:1 / the placeholder when nothing was scanned). Macro helpers: cursor clamping at the end of input; the insertion index validated at extraction time equals the one used at application time; an insertion index that names no pattern of its macro is reported and the token defused (extract_macros, bounded).',
     note='Not decided: termination of the recursion and work bounds, leak freedom beyond "every node is recorded in all_allocated_nodes", error locations, the scanner, macro extraction/application, Theo::parse/gen drivers, dispatch* null-safety (the historical PORTS defect was repaired by fix ffe592a). Three genuine defects were repaired (known_findings.txt).',
     explanation='Contracts in contracts/parse.c, contracts/scan.c, contracts/macro.c, contracts/gen_drv.c (dispatchVoid: absent subtrees generate nothing, unknown node kinds are reported as MALFORMED_AST; gen_ast, bounded: a tree with errors generates no code and every parser error is forwarded with message and location); pre-state built by the harness; match\'s recovery loop and expected_end_or_semicolon\'s loop are closed by loop contracts.',
     not_decided='lexer, macro engine, gen_ast/gen drivers, termination', trusted=PARSE_TRUST + GEN_TRUST + SCAN_TRUST)

prop('C04', level='proof',
     claim='Parser half: match records an error exactly when the token kind differs and consumes exactly one matching token; each nonterminal function, selected by the lookahead it saw, records no error only if the tokens it consumed spell its production (VALUE, VARGS, MVARGS, PORTS, OPORTS, ARGS, MARGS, MOREP in full through the token array; P and S in full through a ghost trace: per lookahead the exact sequence of terminals and nonterminals of the production and the way the returned nodes are assembled into the tree; expected_end_or_semicolon: stop tokens). Static rules: literal range (strToInt), unknown program and argument count (dispatchValue, bounded), unset label reported by backpatch, a label is created exactly when a mark is new (dispatchGoto), unknown node kinds are MALFORMED_AST (dispatchVoid).',
     note='With the textbook LL(1) theorem (not machine-checked) this yields "no parser error <=> sentence" for the productions under full contract. The recording callee contracts of P/S restate the clauses of the enforced callee contracts by hand. Macros, the lexer and the trailing-input loop of Theo::parse are excluded.',
     explanation='Groups parse_* (contracts/parse.c), parse_P_prod / parse_S_prod (contracts/parse_prod.c), gen_strToInt, genU_dispatchValue, gen_backpatch, gen_dispatchGoto/Mark/If, gen_dispatchVoid, genU_gen_ast, gen_gen.',
     not_decided='the LL(1) meta-argument joining the per-function contracts; trailing-input loop of Theo::parse; macros; lexer', trusted=PARSE_TRUST + GEN_TRUST)


prop('C15', level='proof',
     claim='Mechanisms: the recursion check exists_scanner answers true for EVERY stack position that reads the requested file (unbounded, loop contract) and exactly for stacks of depth <= 3; under that contract the driver loop of Theo::scan keeps the invariant "no two active scanners read the same file" (so a file that is being included is never entered again, and the stack depth is bounded by the number of files), pushes a scanner only for a key found in the file map, never touches the file map, reports an absent main file at the placeholder location with the main name as request, gives every FILE_NOT_FOUND error a request that is not a key of the map and no other error a request.',
     note='exists_scanner is proved without bound. Theo::scan is a BOUNDED stand-in in the capacity of its three vectors (4 quick / 8 thorough elements; the number of loop iterations is unbounded through the loop contract): symbolic-size arrays of 24/32-byte records exhaust the SAT back end (24 GB). Termination itself, "every absent include is reported" (completeness direction), "repeated sequential inclusion is allowed" and the file_requests collection in Theo::parse are not decided; the flex scanner is trusted.',
     explanation='Groups scan_layout, scan_exists_scanner (contracts/scan.c, loop contract contracts/scan_exists.loops.json.in), scanB_scan (loop contract contracts/scan.loops.json.in; callees exists_scanner and yylex replaced by contracts).',
     not_decided='termination; completeness of reports; Theo::parse file_requests collection; lexer', trusted=SCAN_TRUST)

prop('C18', level='proof',
     claim='Sequential half only: the library sources define no mutable static storage (syntactic scan; the two message tables are never written), and every function under contract (the VM step/debugger functions, the generator state functions and dispatch functions, the parser descent functions, the macro cursor helpers, the scanner driver) writes nothing outside its assigns clause, and every assigns clause names only state reached through the function\'s own arguments (the VM / GenState / ParseState / ExtractionState object, result objects) and verification ghosts - never static storage of the library. Such a function cannot carry information from one call, compilation or VM instance to another except through the objects it is given, so equal inputs give equal outputs and distinct VM instances do not influence one another through these functions.',
     note='NOT decided: thread schedules and data races (outside CBMC contracts - no thread support in the contract machinery), functions that are not under contract (apply_macros and the LR machinery, Theo::parse/gen/compile drivers, the flex scanner and its reentrancy, VM constructor copying the program), nondeterminism of iteration order inside std::map/std::set (modelled as arbitrary). The frame obligations of bounded stand-in groups are listed separately and not counted.',
     explanation='Group static_storage (tools/staticscan.py, a supporting static fact: every `static`/`thread_local` declaration and every namespace-scope variable definition of the library sources is examined - functions, const objects and never-written tables pass, a mutable static local / static data member / file-static object / written global fails). All other obligation groups except the layout groups: only obligations of class "assigns" (DFCC write-set inclusion checks generated for every assignment, call and loop of the function under contract) are attributed to C18.',
     not_decided='thread schedules, races, functions outside contracts', trusted=GEN_TRUST + PARSE_TRUST + SCAN_TRUST)

HOOK_COMMITS = ['019397c']

NOT_APPLICABLE = {
 'C09': 'match relation is delegated to LRParser<Accumulation,Token> (class template, std::function actions, lambdas) and selection/splicing live in closures inside apply_macros; none of it passes the CBMC C++ front end even after normalisation, and a hand-lifted copy would be a model (different technique family)',
 'C10': 'a statement about the characters of generated identifiers versus the scanner alphabet and a pass counter inside the same closure-laden function; string content is outside the container model (T4)',
 'C11': 'the bounded pass loop lives inside apply_macros behind lambdas/std::optional/std::min_element that the CBMC C++ front end rejects; only a hand-sliced copy (a model) would be verifiable',
 'C12': 'LR(1) conflict <=> not prefix-deterministic is a language-theoretic theorem over item-set fixpoints; no function contract states it without an inductive derivation spec, and the code is template/std::set<struct> based, outside the front end',
 'C13': 'recognises-exactly-the-grammar needs induction over derivations, which CBMC contracts cannot perform; code outside the C++ front end',
 'C14': 'the oracle is the regular-expression semantics of lexer.l against flex generated DFA tables; a contract can at most bound table indices, equivalence needs an independent regex construction (a model)',
}
