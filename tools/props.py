"""Per-property configuration: which obligation groups decide it, what is claimed, what is trusted."""

TRUSTED_COMMON = [
    'T1: model/include/{vector,map,set,string,utility,algorithm} implement the C++ standard semantics of the container operations used (trusted model, not libstdc++ itself)',
    'T2: no reference/iterator into a vector is used after a push_back on it (reallocation is not modelled)',
    'T3: memory allocation succeeds (push_back assumes spare capacity; contracts require capacity for PREPARE) and sizes fit int (data.size()+count <= INT_MAX)',
    'T4: std::string content is not modelled (opaque value with equality/order)',
    'CBMC 6.11 C++ front end lays classes out packed; the C mirror structs are generated from the real headers and every member offset is discharged as a layout obligation on each run',
    'goto-cc/goto-instrument/cbmc 6.11.0 and the SAT back end (MiniSat 2.2.1 built in) are trusted',
    'machine arithmetic is bit-precise (int = 32 bit two\'s complement, size_t = 64 bit); nothing is treated as mathematical integers',
]

PROPS = {}


def prop(pid, **kw):
    PROPS[pid] = kw


STEP_NOTE = ('Every one of the 12 opcode cases of the real Theo::VM::executeSingle (extracted verbatim on each run, '
             'N8-sliced per opcode) is enforced by goto-instrument --dfcc against its variant contract c_step_<OP>: '
             'symbolic program size, data size, stack depth and contents, all up to INT_MAX; the only loop (PREPARE zero-fill) is '
             'closed by a loop contract (invariant + decreases), so there is no unwinding bound. ')

prop('C19', level='proof',
     claim='Unbounded proof, per opcode, that the real VM::executeSingle preserves the frame-layout invariant (data = exactly the contiguous frames of the live activations) for every program/state satisfying the static typing, with RET releasing the callee frame and PREPARE appending exactly its frame; the induction over steps joining the per-step proofs is the standard invariant argument (not machine-checked).',
     note='Trusted: container model T1-T3, packed class layout (re-checked as layout obligations each run), CBMC itself; assumes the executed program is statically well-typed (compiler side: C03).',
     explanation=STEP_NOTE + 'C19 is invariant I2 (frames contiguous, in call order, data ends with the top frame; instantiated at the '
     'unconstrained ghost index g_k so it holds for every activation) proved preserved by all 12 opcodes, plus the exact deltas: '
     'PREPARE appends exactly count words, RET leaves data.size() == start of the returning frame.',
     not_decided='that every reachable state of a *compiled* program satisfies the static typing WF assumed by the step contracts (compiler side, see C03)',
     trusted=['the static typing (fs, pend, isroot ghost arrays) of the executed program exists - established for compiler output only per mechanism (C03)'])

HOOK_COMMITS = []

NOT_APPLICABLE = {
 'C01': 'not yet built in this revision (planned: DESIGN.md section 5)',
 'C02': 'not yet built in this revision (planned: DESIGN.md section 5)',
 'C03': 'not yet built in this revision (planned: DESIGN.md section 5)',
 'C04': 'not yet built in this revision (planned: DESIGN.md section 5)',
 'C05': 'not yet built in this revision (planned: DESIGN.md section 5)',
 'C06': 'not yet built in this revision (planned: DESIGN.md section 5)',
 'C07': 'not yet built in this revision (planned: DESIGN.md section 5)',
 'C08': 'not yet built in this revision (planned: DESIGN.md section 5)',
 'C09': 'match relation is delegated to LRParser<Accumulation,Token> (class template, std::function actions, lambdas) and selection/splicing live in closures inside apply_macros; none of it passes the CBMC C++ front end even after normalisation, and a hand-lifted copy would be a model (different technique family)',
 'C10': 'a statement about the characters of generated identifiers versus the scanner alphabet and a pass counter inside the same closure-laden function; string content is outside the container model (T4)',
 'C11': 'the bounded pass loop lives inside apply_macros behind lambdas/std::optional/std::min_element that the CBMC C++ front end rejects; only a hand-sliced copy (a model) would be verifiable',
 'C12': 'LR(1) conflict <=> not prefix-deterministic is a language-theoretic theorem over item-set fixpoints; no function contract states it without an inductive derivation spec, and the code is template/std::set<struct> based, outside the front end',
 'C13': 'recognises-exactly-the-grammar needs induction over derivations, which CBMC contracts cannot perform; code outside the C++ front end',
 'C14': 'the oracle is the regular-expression semantics of lexer.l against flex generated DFA tables; a contract can at most bound table indices, equivalence needs an independent regex construction (a model)',
 'C15': 'not yet built in this revision (planned: DESIGN.md section 5)',
 'C16': 'not yet built in this revision (planned: DESIGN.md section 5)',
 'C17': 'not yet built in this revision (planned: DESIGN.md section 5)',
 'C18': 'not yet built in this revision (planned: DESIGN.md section 5)',
 'C20': 'not yet built in this revision (planned: DESIGN.md section 5)',
}
prop('C06', level='proof', claim='wip', note='wip', explanation='wip')
