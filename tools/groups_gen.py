"""Obligation groups of the code generator (tiers C1/C3)."""
import os
from framework import Group, CONTRACTS
import genunit

DROPPED_GEN = ['libstdc++ headers (replaced by model/include)', 'nothing of Compiler/src/gen.cpp is dropped: all file-local structs and functions are in the unit',
               'VM/src/instr.cpp: only the Instruction factory functions are extracted']


def _gen_build(contract_c, fn, layout=False, cdefs=()):
    def build(gw, rl):
        n_layout, xlayout = genunit.gen_mirror(gw)
        name, expected = genunit.build_gen_unit(gw, rl, layout_text=xlayout if layout else None)
        rl.check(expected)
        b = {'c_sources': [os.path.join(CONTRACTS, contract_c)] if contract_c else [], 'cxx_sources': [os.path.join(gw, name)], 'cdefs': list(cdefs),
             'entry': 'h_' + fn, 'dropped': DROPPED_GEN, 'min_obligations': 10,
             # narrowing integer conversions are well defined (modular) in C++20: no --conversion-check for the compiler units
             'cbmc_flags': ['--unwinding-assertions', '--no-malloc-may-fail']}
        if layout:
            b['c_sources'] = [os.path.join(gw, 'layout_gen_c.c')]
            b['entry'] = 'h_layout'
            b['min_obligations'] = n_layout
        else:
            b['enforce'] = [f'w_{fn}/c_{fn}']
        return b
    return build


def groups():
    gs = []
    gs.append(Group('gen_layout', ['C08', 'C07', 'C03', 'C16', 'C20', 'C01', 'C02', 'C04'], 'class layouts of GenState, FunctionGenState, VReg, Prog, FileState, Node, AST, CodegenResult, Program',
                    'layout obligations', _gen_build(None, 'layout', layout=True), timeout=300))
    for fn in ('getNextPos', 'getMarkPos'):
        props = ['C08', 'C07'] + (['C03'] if fn == 'getMarkPos' else [])
        gs.append(Group('gen_' + fn, props, f'GenState::{fn} (Compiler/src/gen.cpp)', 'c_' + fn, _gen_build('gen_tbl.c', fn), timeout=900))
    BND = 'BOUNDED in the number of table entries only: line_info and potential_breaks hold at most %d entries (constant-size arrays); code size, site-list lengths and all contents stay symbolic'
    for K, tier in ((8, 'quick'), (24, 'thorough')):
        sfx = '' if tier == 'quick' else f'_K{K}'
        for fn in ('breakpoint', 'removeTopPotBreak', 'advanceLine'):
            gs.append(Group('genB_' + fn + sfx, ['C08', 'C07'], f'GenState::{fn} (Compiler/src/gen.cpp)', 'c_' + fn,
                            _gen_build('gen_tbl.c', fn, cdefs=[f'TBL_CAP={K}']), timeout=1800, tier=tier, bounded=BND % K))
    for fn in ('strToInt', 'strToIntSilent'):
        gs.append(Group('gen_' + fn, ['C20', 'C04', 'C02'], f'{fn} (Compiler/src/gen.cpp)', 'c_' + fn, _gen_build('gen_misc.c', fn), timeout=600))
    return gs
