"""Obligation groups of the code generator (tiers C1/C3)."""
import os
from framework import Group, CONTRACTS
import genunit

DROPPED_GEN = ['libstdc++ headers (replaced by model/include)', 'nothing of Compiler/src/gen.cpp is dropped: all file-local structs and functions are in the unit',
               'VM/src/instr.cpp: only the Instruction factory functions are extracted']


def _gen_build(contract_c, fn, layout=False, cdefs=(), unwind=None, redirect=None, replace=(), loops=None, enforce=None, unwindset=None):
    def build(gw, rl):
        n_layout, xlayout = genunit.gen_mirror(gw)
        name, expected = genunit.build_gen_unit(gw, rl, layout_text=xlayout if layout else None, redirects={r: True for r in (redirect if isinstance(redirect, (list, tuple)) else [redirect])} if redirect else None)
        rl.check(expected)
        b = {'c_sources': [os.path.join(CONTRACTS, contract_c)] if contract_c else [], 'cxx_sources': [os.path.join(gw, name)], 'cdefs': list(cdefs),
             'entry': 'h_' + fn, 'dropped': DROPPED_GEN, 'min_obligations': 10,
             # narrowing integer conversions are well defined (modular) in C++20: no --conversion-check for the compiler units
             'cbmc_flags': ['--unwinding-assertions', '--no-malloc-may-fail']}
        if replace:
            b['replace'] = list(replace)
        if loops:
            b['loops_tpl'] = os.path.join(CONTRACTS, loops)
        if unwind:
            b['cbmc_flags'] = b['cbmc_flags'] + ['--unwind', str(unwind)]
        if unwindset:
            b['cbmc_flags'] = b['cbmc_flags'] + ['--unwindset', unwindset]
        if layout:
            b['c_sources'] = [os.path.join(gw, 'layout_gen_c.c')]
            b['entry'] = 'h_layout'
            b['min_obligations'] = n_layout
        else:
            b['enforce'] = [enforce] if enforce else [f'w_{fn}/c_{fn}']
        return b
    return build


def groups():
    gs = []
    gs.append(Group('gen_layout', ['C08', 'C07', 'C03', 'C16', 'C20', 'C01', 'C02', 'C04'], 'class layouts of GenState, FunctionGenState, VReg, Prog, FileState, Node, AST, CodegenResult, Program',
                    'layout obligations', _gen_build(None, 'layout', layout=True), timeout=300))
    for fn in ('getNextPos', 'getMarkPos'):
        props = ['C08', 'C07'] + (['C03'] if fn == 'getMarkPos' else [])
        gs.append(Group('gen_' + fn, props, f'GenState::{fn} (Compiler/src/gen.cpp)', 'c_' + fn, _gen_build('gen_tbl.c', fn), timeout=900))
    BND = 'BOUNDED in the number of table entries only: line_info and potential_breaks hold at most %d entries (constant-size arrays); code size, site-list lengths and all contents stay symbolic'
    for K, tier in ((8, 'quick'), (24, 'thorough')):
        sfx = '' if tier == 'quick' else f'_K{K}'
        for fn in ('breakpoint', 'removeTopPotBreak', 'advanceLine'):
            gs.append(Group('genB_' + fn + sfx, ['C08', 'C07', 'C05', 'C06'], f'GenState::{fn} (Compiler/src/gen.cpp)', 'c_' + fn,
                            _gen_build('gen_tbl.c', fn, cdefs=[f'TBL_CAP={K}']), timeout=1800, tier=tier, bounded=BND % K))
    for fn in ('strToInt', 'strToIntSilent'):
        gs.append(Group('gen_' + fn, ['C20', 'C04', 'C02'], f'{fn} (Compiler/src/gen.cpp)', 'c_' + fn, _gen_build('gen_misc.c', fn), timeout=600))
    gs.append(Group('gen_fetchTemporary', ['C03', 'C01'], 'FunctionGenState::fetchTemporary (Compiler/src/gen.cpp)', 'c_fetchTemporary',
                    _gen_build('gen_disp.c', 'fetchTemporary', loops='gen_disp.loops.json.in'), timeout=7200, expect_loops=1, tier='thorough',
                    note='unbounded frame size, search loop closed by a loop contract (slow: byte-granular access to a symbolic-size array of 10-byte VReg records)'))
    gs.append(Group('genU_fetchTemporary', ['C03', 'C01'], 'FunctionGenState::fetchTemporary (Compiler/src/gen.cpp)', 'c_fetchTemporary',
                    _gen_build('gen_disp.c', 'fetchTemporary', cdefs=['REG_CAP=4'], unwind=6), timeout=900,
                    bounded='BOUNDED stand-in: at most 4 registers in the frame, --unwind 6 --unwinding-assertions (the unbounded loop-contract proof is in the thorough tier)'))
    gs.append(Group('genU_fetchVariableRegister', ['C03', 'C01', 'C07'], 'FunctionGenState::fetchVariableRegister (Compiler/src/gen.cpp)', 'c_fetchVariableRegister',
                    _gen_build('gen_disp.c', 'fetchVariableRegister', cdefs=['REG_CAP=4'], unwind=6), timeout=900,
                    bounded='BOUNDED stand-in: at most 4 registers in the frame, --unwind 6 --unwinding-assertions (the search loop lives in a function with an explicit parameter: its counter cannot be named in a loop contract)'))
    REPL = ['w_fetchTemporary/c_fetchTemporary', 'w_fetchVariableRegister/c_fetchVariableRegister', 'w_dispatchValue/c_dispatchValue', 'w_dispatchVoid/c_dispatchVoid']
    REPL_ASSIGN = ['w_fetchTemporary/c_fetchTemporary', 'w_fetchVariableRegister/c_fetchVariableRegister_rec', 'w_dispatchValue/c_dispatchValue_rec2', 'w_dispatchVoid/c_dispatchVoid']
    REPL_REC = REPL[:-1] + ['w_dispatchVoid/c_dispatchVoid_rec']  # the body call records the intermediate state
    gs.append(Group('gen_dispatchLoop', ['C01', 'C16', 'C03', 'C07'], 'dispatchLoop (Compiler/src/gen.cpp)', 'c_dispatchLoop',
                    _gen_build('gen_disp.c', 'dispatchLoop', redirect='dispatchLoop', replace=REPL_REC), timeout=900,
                    note='callees fetchVariableRegister, dispatchValue, dispatchVoid replaced by their contracts'))
    for fn, props in (('dispatchWhile', ['C01', 'C03', 'C07']), ('dispatchGoto', ['C01', 'C03', 'C04']), ('dispatchMark', ['C01', 'C03', 'C07', 'C04']),
                      ('dispatchAssign', ['C01']), ('dispatchArgs', ['C03', 'C01']), ('dispatchIf', ['C01', 'C03', 'C04'])):
        gs.append(Group('gen_' + fn, props, f'{fn} (Compiler/src/gen.cpp)', 'c_' + fn,
                        _gen_build('gen_disp.c', fn, redirect=fn, replace=(REPL_REC if fn == 'dispatchWhile' else REPL_ASSIGN if fn == 'dispatchAssign' else REPL) + (['w_dispatchArgs_rec/c_dispatchArgs_callee'] if fn == 'dispatchArgs' else [])),
                        timeout=900, note='callees fetchTemporary, fetchVariableRegister, dispatchValue, dispatchVoid replaced by their contracts; the mark table holds at most 4 marks'))
    gs.append(Group('genU_dispatchValue', ['C03', 'C04', 'C16', 'C01', 'C20', 'C02'], 'dispatchValue + dispatchCallArgs (Compiler/src/gen.cpp)', 'c_dispatchValue_top',
                    _gen_build('gen_disp.c', 'dispatchValue_top', redirect=['dispatchValue', 'dispatchCallArgs'], unwind=5, unwindset='__CPROVER_contracts_write_set_check_assigns_clause_inclusion.0:40',
                               replace=['w_fetchTemporary/c_fetchTemporary', 'w_fetchVariableRegister/c_fetchVariableRegister', 'w_dispatchValue_rec/c_dispatchValue',
                                        'w_advanceLine/c_advanceLine_callee', 'w_strToInt/c_strToInt_callee', 'w_strToIntSilent/c_strToIntSilent_callee'],
                               enforce='w_dispatchValue/c_dispatchValue_top'), timeout=1800,
                    bounded='BOUNDED stand-in: a RUN with at most 2 arguments (dispatchCallArgs inlined, recursion and the ARG loop unwound: --unwind 5), program table of capacity 4; nested argument values go through the callee contract'))
    gs.append(Group('gen_dispatchProgram', ['C16', 'C01', 'C03', 'C02'], 'dispatchProgram (Compiler/src/gen.cpp)', 'c_dispatchProgram',
                    _gen_build('gen_disp.c', 'dispatchProgram', redirect='dispatchProgram',
                               replace=['w_dispatchArgs/c_dispatchArgs_prog', 'w_dispatchVoid/c_dispatchVoid_prog', 'w_fetchVariableRegister/c_fetchVariableRegister_prog',
                                        'w_popSymbols/c_popSymbols_prog']), timeout=900,
                    note='callees dispatchArgs, dispatchVoid, fetchVariableRegister, popSymbols replaced by contracts relative to the newly opened symbol table; popSymbols records its call in ghost variables'))
    gs.append(Group('gen_backpatch', ['C03', 'C01', 'C04'], 'GenState::backpatch (Compiler/src/gen.cpp)', 'c_backpatch',
                    _gen_build('gen_disp.c', 'backpatch', loops='gen_disp.loops.json.in'), timeout=1800, expect_loops=1,
                    note='loop closed by a loop contract; N12 hook: pending positions are distinct instructions of the program whose label operands exist'))
    for (kr, kt, tier) in ((2, 3, 'quick'), (3, 4, 'thorough')):
        sfx = '' if tier == 'quick' else '_L'
        gs.append(Group('genU_popSymbols' + sfx, ['C03', 'C16', 'C04', 'C07', 'C02'], 'GenState::popSymbols (Compiler/src/gen.cpp)', 'c_popSymbols',
                        _gen_build('gen_sym.c', 'popSymbols', unwind=kr + 2, cdefs=[f'K_REG={kr}', f'K_TBL={kt}']), timeout=3600, tier=tier,
                        bounded=f'BOUNDED stand-in: <= 2 marks, <= {kr} registers in the routine being finished, tables of capacity {kt}, --unwind {kr + 2} --unwinding-assertions (its two loops live in a function whose locals cannot be named in loop contracts)'))
    gs += drv_groups()
    gs += top_groups()
    return gs


def _drv_build(which, fn, replace, enforce, loops=None, cdefs=(), unwind=None, csrc='gen_drv.c'):
    import gendrv

    def build(gw, rl):
        n_layout, xlayout = genunit.gen_mirror(gw)
        name, expected = gendrv.build_drv_unit(gw, rl, which)
        rl.check(expected)
        b = {'c_sources': [os.path.join(CONTRACTS, csrc)], 'cxx_sources': [os.path.join(gw, name)], 'cdefs': [],
                'entry': 'h_' + fn, 'dropped': DROPPED_GEN, 'min_obligations': 10, 'cbmc_flags': ['--unwinding-assertions', '--no-malloc-may-fail'],
                'replace': list(replace), 'enforce': [enforce]}
        if loops:
            b['loops_tpl'] = os.path.join(CONTRACTS, loops)
        b['cdefs'] = list(cdefs)
        if unwind:
            b['cbmc_flags'] = b['cbmc_flags'] + ['--unwind', str(unwind), '--unwindset', '__CPROVER_contracts_write_set_check_assigns_clause_inclusion.0:40']
        return b
    return build


def drv_groups():
    DV = [f'w_dispatch{k}/c_dv_{k}' for k in ('Assign', 'Loop', 'While', 'Mark', 'Goto', 'If', 'Program')]
    return [Group('gen_dispatchVoid', ['C01', 'C07', 'C02', 'C04', 'C08', 'C03'], 'dispatchVoid (Compiler/src/gen.cpp)', 'c_dispatchVoid_top',
                  _drv_build('dispatchVoid', 'dispatchVoid_top', DV + ['w_dispatchVoid_rec/c_dv_rec', 'w_advanceLine/c_dv_advanceLine', 'w_removeTopPotBreak/c_dv_removeTopPotBreak'],
                             'w_dispatchVoid/c_dispatchVoid_top'), timeout=900,
                  note='every callee (the seven statement routines, advanceLine, removeTopPotBreak, the recursive calls) replaced by a contract that records its call in ghosts'),
            Group('genU_gen_ast', ['C02', 'C01', 'C04'], 'gen_ast (Compiler/src/gen.cpp)', 'c_gen_ast',
                  _drv_build('gen_ast', 'gen_ast', ['w_dispatchVoid/c_dv_root'], 'w_gen_ast/c_gen_ast', cdefs=['IE_CAP=3'], unwind=5), timeout=900,
                  bounded='BOUNDED stand-in: at most 3 parser errors to forward, --unwind 5 --unwinding-assertions (the loop-contract variant over a symbolic-size array of 20-byte records did not finish in 30 min)',
                  note='dispatchVoid replaced by a recording contract')]


def top_groups():
    return [Group('gen_gen', ['C02', 'C03', 'C04', 'C01', 'C16', 'C17', 'C19'], 'Theo::gen (Compiler/src/gen.cpp)', 'c_gen',
                  _drv_build('gen', 'gen', ['w_gen_ast/c_gen_ast_g', 'w_popSymbols/c_popSymbols_g', 'w_backpatch/c_backpatch_g'], 'w_gen/c_gen', csrc='gen_top.c'),
                  timeout=3600, note='gen_ast, popSymbols, backpatch replaced by contracts over the local generator state (N12 hook records its address)')]
