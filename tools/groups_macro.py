"""Obligation groups of the macro-extraction helpers (Compiler/src/macro.cpp)."""
import os
from framework import Group, CONTRACTS
import macrounit

DROPPED = ['libstdc++ headers (model/include)', 'Compiler/include/ParserGenerator/lrparser.hpp (include guard pre-defined; not used by the helpers)',
           'all of macro.cpp except ExtractionState and strToInt, strToIntSilent, lookahead, match, copy, advance, push_macro, error, push_rule, push_replacement',
           'Theo::token_string is an arbitrary-string stub']


def _build(fn, layout=False):
    def build(gw, rl):
        n_layout, xlayout = macrounit.macro_mirror(gw)
        name = macrounit.build_macro_unit(gw, rl, layout_text=xlayout if layout else None)
        b = {'cxx_sources': [os.path.join(gw, name)], 'dropped': DROPPED, 'cbmc_flags': ['--unwinding-assertions', '--no-malloc-may-fail'],
             'min_obligations': 5}
        if layout:
            b.update({'c_sources': [os.path.join(gw, 'layout_macro_c.c')], 'entry': 'h_layout'})
        else:
            b.update({'c_sources': [os.path.join(CONTRACTS, 'macro.c')], 'entry': 'h_' + fn, 'enforce': [f'w_{fn}/c_{fn}']})
        return b
    return build


def groups():
    gs = [Group('macro_layout', ['C02', 'C20'], 'class layouts of Token, ParseError, MacroDefinition, ExtractionState', 'layout obligations', _build('layout', layout=True), timeout=300)]
    for fn, real, props in (('mstrToInt', 'strToInt(ExtractionState&, std::string)', ['C20', 'C02']), ('mlookahead', 'lookahead(ExtractionState&)', ['C02']),
                            ('mmatch', 'match(ExtractionState&, Token::Type)', ['C02']), ('mcopy', 'copy(ExtractionState&)', ['C02']),
                            ('mconv_agree', 'strToInt(ExtractionState&, std::string) / strToIntSilent(std::string): conversion agreement lemma', ['C02']),
                            ('merror', 'error(ExtractionState&, ParseError::Type, std::string)', ['C02'])):
        gs.append(Group('macro_' + fn[1:], props, real + ' (Compiler/src/macro.cpp)', 'c_' + fn, _build(fn), timeout=600))
    return gs
