"""Obligation groups of the macro-extraction helpers (Compiler/src/macro.cpp)."""
import os
from framework import Group, CONTRACTS
import macrounit

DROPPED = ['libstdc++ headers (model/include)', 'Compiler/include/ParserGenerator/lrparser.hpp (include guard pre-defined; not used by the helpers)',
           'all of macro.cpp except ExtractionState and strToInt, strToIntSilent, lookahead, match, copy, advance, push_macro, error, push_rule, push_replacement',
           'Theo::token_string is an arbitrary-string stub']


def _build(fn, layout=False):
    def build(gw, rl):
        n_layout, xlayout = macrounit.macro_mirror(gw)
        name = macrounit.build_macro_unit(gw, rl, layout_text=xlayout if layout else None)
        b = {'cxx_sources': [os.path.join(gw, name)], 'dropped': DROPPED, 'cbmc_flags': ['--unwinding-assertions', '--no-malloc-may-fail'],
             'min_obligations': 5}
        if layout:
            b.update({'c_sources': [os.path.join(gw, 'layout_macro_c.c')], 'entry': 'h_layout'})
        else:
            b.update({'c_sources': [os.path.join(CONTRACTS, 'macro.c')], 'entry': 'h_' + fn, 'enforce': [f'w_{fn}/c_{fn}']})
        return b
    return build


def groups():
    gs = [Group('macro_layout', ['C02', 'C20'], 'class layouts of Token, ParseError, MacroDefinition, ExtractionState', 'layout obligations', _build('layout', layout=True), timeout=300)]
    for fn, real, props in (('mstrToInt', 'strToInt(ExtractionState&, std::string)', ['C20', 'C02']), ('mlookahead', 'lookahead(ExtractionState&)', ['C02']),
                            ('mmatch', 'match(ExtractionState&, Token::Type)', ['C02']), ('mcopy', 'copy(ExtractionState&)', ['C02']),
                            ('mconv_agree', 'strToInt(ExtractionState&, std::string) / strToIntSilent(std::string): conversion agreement lemma', ['C02']),
                            ('merror', 'error(ExtractionState&, ParseError::Type, std::string)', ['C02'])):
        gs.append(Group('macro_' + fn[1:], props, real + ' (Compiler/src/macro.cpp)', 'c_' + fn, _build(fn), timeout=600))
    gs += tail_groups()
    return gs


def tail_groups():
    import macrotail

    def build(gw, rl):
        macrotail.tail_mirror(gw)
        name = macrotail.build_tail_unit(gw, rl)
        repl = ['w_mS/c_mS']
        if 'w_mstrToInt_callee(&es' in open(os.path.join(gw, name)).read():
            repl.append('w_mstrToInt_callee/c_mstrToInt_callee')  # (a change may not call strToInt any more: nothing to replace then)
        return {'cxx_sources': [os.path.join(gw, name)], 'cxxdefs': ['MODEL_SUBSTR_GHOST', 'MODEL_VECTOR_CAP=8'], 'dropped': DROPPED + ['the extraction grammar S/D/MD/A: used through the trusted contract c_mS'],
                'cbmc_flags': ['--unwinding-assertions', '--no-malloc-may-fail', '--unwind', '4', '--unwindset', '__CPROVER_contracts_write_set_check_assigns_clause_inclusion.0:40'],
                'min_obligations': 5, 'c_sources': [os.path.join(CONTRACTS, 'macro_tail.c')], 'entry': 'h_extract_macros',
                'enforce': ['w_extract_macros/c_extract_macros'], 'replace': repl}
    return [Group('macroU_extract_macros', ['C20', 'C02'], 'Theo::extract_macros (Compiler/src/macro.cpp): validation of insertion indices', 'c_extract_macros', build, timeout=900,
                  bounded='BOUNDED stand-in: at most 1 macro with at most 2 body tokens, at most 2 earlier errors (vectors of capacity 8, --unwind 4 --unwinding-assertions); the extraction grammar is a trusted contract')]
