"""Generate packed C mirror structs from the member lists of the real headers.

CBMC's C++ front end lays classes out packed (DESIGN.md probe 5); the C contract units address
object state through these mirrors.  The mirror is regenerated from /repo on every run, so a
reordered/added/retyped member changes the mirror (and the layout obligations re-check it)
instead of silently changing what a contract means.
"""
import sys
from cpptok import tokenize, code_indices, match_close, untok


class MirrorError(Exception):
    pass


SCALARS = {'int': 'int', 'bool': '_Bool', 'long': 'long', 'size_t': 'unsigned long',
           'std::size_t': 'unsigned long', 'char': 'char', 'unsigned': 'unsigned', 'unsignedint': 'unsigned'}


def _code(toks):
    return [t for t in toks if t.kind not in ('ws', 'com', 'pp')]


def find_class_body(ctoks, name):
    """return (open_idx, close_idx) of `struct|class name {` in code-token list."""
    for k in range(len(ctoks) - 2):
        if ctoks[k].text in ('struct', 'class') and ctoks[k + 1].text == name and ctoks[k + 2].text == '{':
            # make sure this is not `enum class name`
            if k > 0 and ctoks[k - 1].text == 'enum':
                continue
            return k + 2, match_close(ctoks, k + 2)
    raise MirrorError(f"class {name} not found")


def split_members(ctoks, o, c):
    """yield token lists of the data-member declarations directly inside body (o,c)."""
    k = o + 1
    cur = []
    while k < c:
        t = ctoks[k]
        if t.text in ('public', 'private', 'protected') and ctoks[k + 1].text == ':':
            k += 2
            cur = []
            continue
        if t.text == '{':
            e = match_close(ctoks, k)
            cur.append(('BLOCK', ctoks[k:e + 1]))
            k = e + 1
            if any(isinstance(x, tuple) and x[0] == 'PAREN' for x in cur):
                cur = []  # function definition: ends without ';'
            continue
        if t.text == '(':
            e = match_close(ctoks, k)
            cur.append(('PAREN', ctoks[k:e + 1]))
            k = e + 1
            continue
        if t.text == ';':
            if cur:
                yield cur
            cur = []
            k += 1
            continue
        cur.append(t)
        k += 1


def typedefs_in(ctoks):
    """simple `typedef T a, b, c;` declarations anywhere in the token list -> {name: T}"""
    out = {}
    k = 0
    while k < len(ctoks):
        if ctoks[k].text == 'typedef':
            j = k + 1
            decl = []
            while ctoks[j].text != ';':
                decl.append(ctoks[j])
                j += 1
            # base type = tokens up to the first name followed by ',' or end; handle templates
            depth = 0
            parts = [[]]
            for t in decl:
                if t.text == '<':
                    depth += 1
                elif t.text == '>':
                    depth -= 1
                if t.text == ',' and depth == 0:
                    parts.append([])
                else:
                    parts[-1].append(t)
            first = parts[0]
            base = first[:-1]
            names = [first[-1].text] + [p[-1].text for p in parts[1:]]
            bt = ''.join(x.text for x in base)
            for n in names:
                out[n] = bt
            k = j
        k += 1
    return out


class Mirror:
    def __init__(self):
        self.typedefs = {}
        self.classes = {}       # name -> list of (ctype_decl, field)
        self.order = []         # emission order of struct definitions (text)
        self.emitted = set()
        self.fields = {}        # class -> [(field, cxx_type)]
        self.special = {}       # (class, field) -> C declarator template
        self.defines = []
        self.pending = {}
        self.enums = set()
        self.emitted_classes = set()

    def add_header(self, path):
        ct = _code(tokenize(open(path).read()))
        self.typedefs.update(typedefs_in(ct))
        return ct

    def ctype(self, ty):
        """map a C++ type string (no spaces) to a C type, emitting helper structs."""
        ty = ty.replace('Theo::', '')
        if ty.startswith('const'):
            ty = ty[5:]
        if ty.endswith('*') or ty.endswith('&'):
            return 'void *'  # reference members are pointers
        if ty in SCALARS:
            return SCALARS[ty]
        if ty in self.typedefs:
            return self.ctype(self.typedefs[ty])
        for q in ('VM::', 'Program::', 'Node::', 'Token::', 'CodegenResult::', 'Error::', 'Activation::'):
            if ty.startswith(q):
                return self.ctype(ty[len(q):])
        if ty == 'std::string' or ty == 'string':
            self.emit('m_string', 'struct m_string { long _id; };')
            return 'struct m_string'
        if ty.startswith('std::vector<') and ty.endswith('>'):
            inner = ty[len('std::vector<'):-1]
            it = self.ctype(inner)
            nm = 'm_vec_' + self.mangle(inner)
            self.emit(nm, f'struct {nm} {{ {it} *_d; unsigned long _n; unsigned long _cap; }};')
            return 'struct ' + nm
        if ty.startswith('std::set<') and ty.endswith('>'):
            inner = ty[len('std::set<'):-1]
            it = self.ctype(inner)
            nm = 'm_set_' + self.mangle(inner)
            self.emit(nm, f'struct {nm} {{ {it} *_d; unsigned long _n; unsigned long _cap; }};')
            return 'struct ' + nm
        if ty.startswith('std::map<') and ty.endswith('>'):
            inner = ty[len('std::map<'):-1]
            depth = 0
            for i, ch in enumerate(inner):
                if ch == '<':
                    depth += 1
                elif ch == '>':
                    depth -= 1
                elif ch == ',' and depth == 0:
                    k, v = inner[:i], inner[i + 1:]
                    break
            else:
                raise MirrorError('bad map type ' + ty)
            kt, vt = self.ctype(k), self.ctype(v)
            nm = 'm_map_' + self.mangle(k) + '_' + self.mangle(v)
            self.emit(nm + '_e', f'struct {nm}_e {{ {kt} first; {vt} second; }};')
            self.emit(nm, f'struct {nm} {{ struct {nm}_e *_d; unsigned long _n; unsigned long _cap; }};')
            return 'struct ' + nm
        if ty in self.fields or ty in self.pending:
            if ty not in self.emitted_classes:
                self.emit_class(ty)
            return 'struct m_' + ty
        if ty in self.enums:
            return 'int'
        raise MirrorError('no C mirror for type ' + ty)

    def mangle(self, ty):
        ty = ty.replace('Theo::', '').replace('std::', '')
        ty = self.typedefs.get(ty, ty) if ty in self.typedefs and self.typedefs[ty] in SCALARS else ty
        out = ''
        for ch in ty:
            out += ch if ch.isalnum() else '_'
        return out.strip('_').replace('__', '_')

    def emit(self, name, text):
        if name not in self.emitted:
            self.emitted.add(name)
            self.order.append(text)


    def register_class(self, ctoks, name):
        o, c = find_class_body(ctoks, name)
        members = []
        for m in split_members(ctoks, o, c):
            heads = [x for x in m if not isinstance(x, tuple)]
            if not heads:
                continue
            h0 = heads[0].text
            if h0 in ('typedef', 'friend', 'using', 'static', 'enum', 'template', 'virtual'):
                continue
            if any(isinstance(x, tuple) and x[0] == 'PAREN' for x in m):
                continue  # function declaration
            if h0 in ('struct', 'class', 'union'):
                # nested type definition with a declarator (`union {...} parameters;`) or without
                blk = [x for x in m if isinstance(x, tuple) and x[0] == 'BLOCK']
                if blk and heads[-1].kind == 'id' and heads[-1].text not in ('struct', 'class', 'union') and len(heads) >= 2 and h0 == 'union':
                    members.append((heads[-1].text, '@union'))
                continue
            # strip default member initialiser `= ...`
            toks = []
            for x in m:
                if not isinstance(x, tuple) and x.text == '=':
                    break
                toks.append(x)
            toks = [x for x in toks if not isinstance(x, tuple)]
            # split declarators at top-level commas: `Node *left, *right;`
            depth = 0
            parts = [[]]
            for x in toks:
                if x.text == '<':
                    depth += 1
                elif x.text == '>':
                    depth -= 1
                if x.text == ',' and depth == 0:
                    parts.append([])
                else:
                    parts[-1].append(x)
            first = parts[0]
            base = [x.text for x in first[:-1]]
            ptr0 = ''
            while base and base[-1] in ('*', '&'):
                ptr0 = base.pop() + ptr0
            bt = ''.join(base)
            members.append((first[-1].text, bt + ptr0))
            for p in parts[1:]:
                pt = ''.join(x.text for x in p[:-1])
                members.append((p[-1].text, bt + pt))
        self.fields[name] = members
        return members

    def register_enum(self, name, ctoks=None, prefix=None):
        """record an enum type (mirrored as int); with ctoks also emit #define <prefix>_<ENUMERATOR> <value>"""
        self.enums.add(name)
        if ctoks is None:
            return
        for k in range(len(ctoks) - 2):
            if ctoks[k].text == 'enum':
                j = k + 1
                if ctoks[j].text in ('class', 'struct'):
                    j += 1
                if ctoks[j].text != name:
                    continue
                while ctoks[j].text != '{':
                    j += 1
                e = match_close(ctoks, j)
                val = -1
                items = [[]]
                for t in ctoks[j + 1:e]:
                    if t.text == ',':
                        items.append([])
                    else:
                        items[-1].append(t)
                for it in items:
                    if not it:
                        continue
                    if len(it) >= 3 and it[1].text == '=':
                        val = int(it[2].text, 0)
                    else:
                        val += 1
                    self.defines.append(f'#define {prefix}_{it[0].text} {val}')
                return
        raise MirrorError('enum ' + name + ' not found')

    def register_union_fields(self, ctoks, cls, member, prefix):
        """`union { struct {A a; B b;} x; ... } member;` inside cls -> #define <prefix>_<x>_<a> <ordinal>"""
        o, c = find_class_body(ctoks, cls)
        k = o + 1
        while k < c:
            if ctoks[k].text == 'union' and ctoks[k + 1].text == '{':
                e = match_close(ctoks, k + 1)
                if ctoks[e + 1].text == member:
                    j = k + 2
                    while j < e:
                        if ctoks[j].text == 'struct' and ctoks[j + 1].text == '{':
                            se = match_close(ctoks, j + 1)
                            sname = ctoks[se + 1].text
                            ordn = 0
                            stmt = []
                            for t in ctoks[j + 2:se]:
                                if t.text == ';':
                                    if stmt:
                                        if self.ctype(''.join(x.text for x in stmt[:-1])) != 'int':
                                            raise MirrorError('non-int union field')
                                        self.defines.append(f'#define {prefix}_{sname}_{stmt[-1].text} {ordn}')
                                        ordn += 1
                                    stmt = []
                                else:
                                    stmt.append(t)
                            j = se + 1
                        else:
                            j += 1
                    return
                k = e
            k += 1
        raise MirrorError(f'union {cls}.{member} not found')

    def emit_class(self, name):
        self.emitted_classes.add(name)
        lines = []
        for f, ty in self.fields[name]:
            if (name, f) in self.special:
                lines.append('  ' + self.special[(name, f)] + ';')
                continue
            if ty == '@union':
                raise MirrorError(f'union member {name}.{f} needs a special mirror')
            ct = self.ctype(ty)
            lines.append(f'  {ct} {f};')
        self.emit('m_' + name, f'struct m_{name} {{\n' + '\n'.join(lines) + '\n};')

    def header(self, guard):
        out = [f'#ifndef {guard}', f'#define {guard}', '/* GENERATED by tools/mirror.py from the headers of /repo: do not edit */',
               '#pragma pack(push, 1)']
        out += self.order
        out += ['#pragma pack(pop)'] + self.defines + ['#endif', '']
        return '\n'.join(out)

    def layout_checks(self, classes, cxxnames):
        """returns (c_text, cxx_text): offsets exported from C, asserted in C++ (layout obligations)."""
        c, x, n = [], [], 0
        x.append('extern "C" {')
        decls = []
        body = []
        for cl in classes:
            cxx = cxxnames.get(cl, 'Theo::' + cl)
            for f, ty in self.fields[cl]:
                sym = f'm_off_{cl}_{f}'
                c.append(f'const unsigned long {sym} = (unsigned long)&(((struct m_{cl} *)0)->{f});')
                decls.append(f'extern const unsigned long {sym};')
                body.append(f'  __CPROVER_assert((unsigned long)&((({cxx} *)0)->{f}) == {sym}, "layout: offset of {cl}::{f} equals mirror");')
                n += 1
            sym = f'm_sizeof_{cl}'
            c.append(f'const unsigned long {sym} = sizeof(struct m_{cl});')
        x += decls
        x.append('void h_layout(void) {')
        x += body
        x.append('  __CPROVER_assert(0, "canary: end of layout harness reachable");')
        x.append('}')
        x.append('}')
        return '\n'.join(c) + '\n', '\n'.join(x) + '\n', n
