"""Obligation group of the parser driver inside Theo::parse (Compiler/src/parse.cpp): first S call and trailing-input loop."""
import os
from framework import Group, CONTRACTS
import parseunit
import parsedrv
from groups_parse import DROPPED, FLAGS


def _build(gw, rl):
    parseunit.parse_mirror(gw)
    name = parsedrv.build_parsedrv_unit(gw, rl)
    return {'cxx_sources': [os.path.join(gw, name)], 'cxxdefs': ['MODEL_VECTOR_INDEX_ITERATORS'],
            'dropped': [d for d in DROPPED if 'trailing-input' not in d] + ['Theo::parse outside the slice S4 (cursor declaration .. before the gathering of the pass errors): slices S1-S3 are separate groups, the macro passes are outside',
                                                                            'the macro application result is used through its `transformed_sequence` member only'],
            'cbmc_flags': FLAGS, 'min_obligations': 10, 'c_sources': [os.path.join(CONTRACTS, 'parse_drv.c')], 'entry': 'h_parse_driver',
            'enforce': ['w_parse_driver/c_parse_driver'], 'replace': ['w_S/c_S_drv', 'w_lookahead/c_lookahead', 'w_match/c_match'],
            'loops_tpl': os.path.join(CONTRACTS, 'parse_drv.loops.json.in')}


def groups():
    return [Group('parse_driver', ['C04', 'C02'], 'Theo::parse, parser driver: `a.root = S(ps)` and the trailing-input loop (Compiler/src/parse.cpp)', 'c_parse_driver', _build,
                  timeout=900, expect_loops=1, note='S, ParseState::lookahead and ParseState::match replaced by contracts; loop closed by a loop contract (no bound on the number of tokens)')]
