#!/usr/bin/env python3
"""Generate MANIFEST.json from tools/props.py (kept in sync with what bin/check can decide)."""
import json
import os
import sys
HERE = os.path.dirname(os.path.abspath(__file__))
sys.path.insert(0, HERE)
import props as P

VERIF = os.path.dirname(HERE)
allp = [json.loads(l)['id'] for l in open(os.path.join(VERIF, 'properties.jsonl'))]
checks = []
for pid in allp:
    if pid not in P.PROPS:
        continue
    c = P.PROPS[pid]
    checks.append({
        'property_id': pid,
        'quick_cmd': f'bin/check {pid} --tier quick',
        'thorough_cmd': f'bin/check {pid} --tier thorough',
        'evidence_file': f'/verif/evidence/{pid}.json',
        'replay_cmd_template': f'bin/check {pid} --replay {{path}}',
        'engine': 'cbmc-contracts',
        'level_claimed': {'category': c['level'], 'text': c['claim'], 'design_ref': c.get('design_ref', 'DESIGN.md section 5')},
        'level_note': c['note'],
        'technique': c.get('technique', 'contract-based deductive verification: CBMC 6.11 code contracts (requires/ensures/assigns, loop invariants+decreases) enforced with goto-instrument --dfcc on the real functions extracted from /repo on every run'),
    })
na = [{'property_id': pid, 'reason': P.NOT_APPLICABLE[pid]} for pid in allp if pid not in P.PROPS]
man = {
    'version': 1,
    'setup_cmd': 'bin/setup',
    'hooks': {'guard': 'THEO_IDE_LIBTHEO_VERIF',
              'enable': 'native replay drivers are compiled with g++ -DTHEO_IDE_LIBTHEO_VERIF (friend accessor in VM/include/vm.hpp); the CBMC side needs no hook',
              'baseline_off_cmd': 'bin/baseline_off',
              'source_commits': P.HOOK_COMMITS, 'add_only': True},
    'engines': [{'name': 'cbmc-contracts', 'path': 'bin/check', 'serves_properties': [c['property_id'] for c in checks],
                 'kind_free_text': 'tools/extract.py copies the real function bodies from /repo (logged normalisations only), contracts/*.c hold the specifications, goto-instrument --dfcc enforces them, cbmc discharges every obligation; tools/framework.py attributes obligations to properties and writes evidence'}],
    'checks': checks,
    'notes': 'Exit codes of every check: 0 proved (KNOWN-FINDING lines allowed), 1 VIOLATION, 2 undecided (tool failure/timeout/extraction rule did not fire) - exit 2 is never a violation. See DESIGN.md.',
    'not_applicable': na,
}
json.dump(man, open(os.path.join(VERIF, 'MANIFEST.json'), 'w'), indent=1)
print('MANIFEST.json:', len(checks), 'checks,', len(na), 'not applicable')
