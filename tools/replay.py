"""Replay files and native replay (DESIGN.md 3.6)."""
import json
import os
import re
import subprocess

import cbmcrun as C

VERIF = os.path.dirname(os.path.dirname(os.path.abspath(__file__)))


def witness_from_trace(trace):
    vals = C.trace_values(trace)
    w = {}
    for k, v in vals.items():
        base = k.split('::')[-1]
        if base.startswith('cex_') or base.startswith('g_'):
            w[base] = v
    return w


def write_replay(pid, r, o, work):
    """write /verif/replays/<pid>-<group>-<obligation>.json; returns (path, reproduced)"""
    safe = re.sub(r'[^A-Za-z0-9_.-]', '_', f'{pid}-{r["group"]}-{o["name"]}')
    rdir = os.environ.get('VERIF_REPLAY_DIR', os.path.join(VERIF, 'replays'))
    os.makedirs(rdir, exist_ok=True)
    path = os.path.join(rdir, safe + '.json')
    wit = witness_from_trace(o.get('trace'))
    doc = {'property': pid, 'group': r['group'], 'function': r['function'], 'contract': r['contract'],
           'obligation': o['name'], 'class': o['class'], 'description': o['description'], 'clause': o['clause'],
           'source': f'{o["file"]}:{o["line"]}', 'witness': wit, 'reproduced': False, 'native': None,
           'verifier_output': {'status': o['status'], 'cmd': r['cmd'],
                               'trace_tail': [s for s in (o.get('trace') or []) if s.get('stepType') in ('failure',)][-3:]}}
    repro = False
    try:
        import native_replay
        repro, native = native_replay.try_replay(pid, r, o, wit, work)
        doc['native'] = native
        doc['reproduced'] = bool(repro)
    except Exception as e:  # replay is best effort; the violation is reported regardless
        doc['native'] = {'error': repr(e)}
    with open(path, 'w') as f:
        json.dump(doc, f, indent=1)
    return path, repro


def replay_file(path):
    doc = json.load(open(path))
    print(json.dumps({k: doc[k] for k in ('property', 'group', 'obligation', 'clause', 'witness', 'reproduced')}, indent=1))
    try:
        import native_replay
        ok, native = native_replay.rerun(doc)
        print(json.dumps(native, indent=1))
        return 1 if ok else 0
    except Exception as e:
        print('native replay unavailable:', e)
        return 2
