#!/usr/bin/env python3
"""Run checks against a seeded change in a scratch worktree (never in /repo).
usage: seedtest.py <mutation dir> <pid>[,<pid>...] [--tier quick|thorough] [--groups ...]
prints one JSON line: {mutation, results: {pid: {exit, violations:[...], tail}}}"""
import json, os, shutil, subprocess, sys, tempfile
d = os.path.abspath(sys.argv[1])
pids = sys.argv[2].split(',')
extra = sys.argv[3:]
wt = tempfile.mkdtemp(prefix='seedrun-', dir='/var/tmp'); os.rmdir(wt)
out = {'mutation': d, 'results': {}}
try:
    subprocess.run(['git', '-C', '/repo', 'worktree', 'add', '-q', '--detach', wt, 'HEAD'], check=True)
    p = subprocess.run(['git', 'apply', os.path.join(d, 'patch.diff')], cwd=wt, stdout=subprocess.PIPE, stderr=subprocess.STDOUT, text=True)
    if p.returncode != 0:
        out['apply_error'] = p.stdout[-500:]
    else:
        tmp = tempfile.mkdtemp(prefix='seedev-', dir='/var/tmp')
        env = dict(os.environ, VERIF_REPO=wt, VERIF_EVIDENCE_DIR=tmp, VERIF_REPLAY_DIR=os.path.join(tmp, 'replays'))
        for pid in pids:
            p = subprocess.run(['/verif/bin/check', pid] + extra, cwd='/verif', env=env, stdout=subprocess.PIPE, stderr=subprocess.STDOUT, text=True)
            lines = p.stdout.split('\n')
            viol = [l for l in lines if l.startswith('VIOLATION')]
            und = [l[:200] for l in lines if l.startswith('UNDECIDED')]
            reps = []
            for v in viol[:6]:
                try:
                    rp = v.split('replay=')[1].split()[0]
                    doc = json.load(open(rp))
                    reps.append({'obligation': doc['group'] + ':' + doc['obligation'], 'clause': (doc['clause'] or doc['description'])[:160], 'reproduced': doc['reproduced']})
                except Exception as e:
                    reps.append({'err': str(e)})
            out['results'][pid] = {'exit': p.returncode, 'n_violations': len(viol), 'violations': reps, 'undecided': und[:4], 'summary': [l for l in lines if l.startswith(pid + ' [')]}
        shutil.rmtree(tmp, ignore_errors=True)
finally:
    subprocess.run(['git', '-C', '/repo', 'worktree', 'remove', '--force', wt], stdout=subprocess.DEVNULL, stderr=subprocess.DEVNULL)
    shutil.rmtree(wt, ignore_errors=True)
print(json.dumps(out))
