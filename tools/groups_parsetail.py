"""Obligation group of the end of Theo::parse (Compiler/src/parse.cpp): error merge, verdict, result."""
import os
from framework import Group, CONTRACTS
import parsetail


def _build(gw, rl):
    parsetail.tail_mirror(gw)
    name = parsetail.build_parsetail_unit(gw, rl)
    return {'cxx_sources': [os.path.join(gw, name)], 'cxxdefs': ['MODEL_VECTOR_CAP=4'],
            'dropped': ['libstdc++ headers (model/include)', 'Theo::parse before the statement that gathers the error lists (groups parseB_head, parseB_requests; macro passes and parser driver loop: outside)',
                        'the scan / macro pass results are used through their `errors` member only (template parameters of the slice)'],
            'cbmc_flags': ['--unwinding-assertions', '--no-malloc-may-fail', '--unwind', '6'], 'min_obligations': 5,
            'c_sources': [os.path.join(CONTRACTS, 'parse_tail.c')], 'entry': 'h_parse_tail', 'enforce': ['w_parse_tail/c_parse_tail'], 'replace': []}


def groups():
    return [Group('parseB_tail', ['C15', 'C02'], 'Theo::parse, from the gathering of the pass errors to the return statement (Compiler/src/parse.cpp)', 'c_parse_tail', _build, timeout=600,
                  bounded='BOUNDED stand-in: at most one error per pass and one parser error (vector capacity 4, --unwind 6 with unwinding assertions)',
                  note='braced vector initialisation -> push_backs (N2), range-for desugared (N1, bodies braced first: N1a), return {..} -> aggregate (N18)')]
