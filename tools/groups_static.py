"""Supporting static fact for C18 (tools/staticscan.py): no mutable static storage in the library sources."""
import os
from framework import Group
import staticscan

REPO = os.environ.get('VERIF_REPO', '/repo')


def _build(gw, rl):
    obl, files = staticscan.scan(REPO)
    return {'precomputed': obl, 'min_obligations': 10, 'cmd': 'python3 tools/staticscan.py <repo>   # token-level scan, no verifier',
            'dropped': [f'static fact over {len(files)} source files of Compiler/ and VM/ (tests excluded): ' + ', '.join(files)]}


def groups():
    return [Group('static_storage', ['C18'], 'every `static`/`thread_local` declaration and every namespace-scope variable definition of the library sources',
                  'no mutable static storage (syntactic)', _build, timeout=120,
                  note='supporting static fact, not a contract proof: one obligation per examined declaration')]
