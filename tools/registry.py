import groups_vm
import groups_gen


def all_groups():
    gs = []
    gs += groups_vm.groups()
    gs += groups_gen.groups()
    return gs
