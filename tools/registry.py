import groups_vm
import groups_gen
import groups_parse
import groups_macro
import groups_scan
import groups_static
import groups_comp
import groups_parsehead
import groups_parsetail


def all_groups():
    gs = []
    gs += groups_vm.groups()
    gs += groups_gen.groups()
    gs += groups_parse.groups()
    gs += groups_macro.groups()
    gs += groups_scan.groups()
    gs += groups_comp.groups()
    gs += groups_parsehead.groups()
    gs += groups_parsetail.groups()
    # C18 (sequential half): the frame obligations of EVERY function under contract - see framework.attributed
    for g in gs:
        # (the slices of Theo::parse, parseB_*, are attributed to C15 only for now: DESIGN 10.5, continuation session)
        if 'C18' not in g.props and not g.name.endswith('_layout') and not g.name.startswith('parseB_'):
            g.props = list(g.props) + ['C18']
    gs += groups_static.groups()
    return gs
