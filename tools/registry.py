import groups_vm
import groups_gen
import groups_parse


def all_groups():
    gs = []
    gs += groups_vm.groups()
    gs += groups_gen.groups()
    gs += groups_parse.groups()
    return gs
