import groups_vm
import groups_gen
import groups_parse
import groups_macro


def all_groups():
    gs = []
    gs += groups_vm.groups()
    gs += groups_gen.groups()
    gs += groups_parse.groups()
    gs += groups_macro.groups()
    return gs
