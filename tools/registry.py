import groups_vm


def all_groups():
    gs = []
    gs += groups_vm.groups()
    return gs
