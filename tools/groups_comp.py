"""Obligation groups of Theo::compile (Compiler/src/compiler.cpp)."""
import os
from framework import Group, CONTRACTS
import compunit


def _build(layout=False):
    def build(gw, rl):
        n, xlayout = compunit.comp_mirror(gw)
        name = compunit.build_comp_unit(gw, rl)
        b = {'cxx_sources': [os.path.join(gw, name)], 'dropped': ['libstdc++ headers (model/include)', 'parse, gen, AST::clear: used through recording contracts'],
             'cbmc_flags': ['--unwinding-assertions', '--no-malloc-may-fail'], 'min_obligations': 5}
        if layout:
            with open(os.path.join(gw, name), 'a') as f:
                f.write(xlayout)
            b.update({'c_sources': [os.path.join(gw, 'layout_comp_c.c')], 'entry': 'h_layout'})
        else:
            b.update({'c_sources': [os.path.join(CONTRACTS, 'comp.c')], 'entry': 'h_compile', 'enforce': ['w_compile/c_compile'],
                      'replace': ['w_parse_c/c_parse_c', 'w_gen_c/c_gen_c', 'w_ast_clear/c_ast_clear']})
        return b
    return build


def groups():
    return [Group('comp_layout', ['C02', 'C15'], 'class layouts of CodegenResult, ParseResult, AST', 'layout obligations', _build(layout=True), timeout=300),
            Group('comp_compile', ['C02', 'C15', 'C18'], 'Theo::compile (Compiler/src/compiler.cpp)', 'c_compile', _build(), timeout=600,
                  note='parse, gen and AST::clear replaced by contracts that record their calls')]
