"""Pipeline of DESIGN.md 3.4: goto-cc -> goto-instrument --dfcc -> cbmc, with result parsing.

Every external tool runs under `timeout` and `ulimit -v`.  Outcomes:
  ok        every obligation SUCCESS except the expected canary failures
  failed    at least one real obligation FAILURE  (-> VIOLATION unless a known finding)
  undecided tool error, timeout, memory-out, `ignoring forall`, missing loop obligations (-> exit 2)
"""
import json
import os
import re
import resource
import subprocess
import time

MEM_KB = int(os.environ.get('VERIF_MEM_KB', '24000000'))


def _limits():
    resource.setrlimit(resource.RLIMIT_AS, (MEM_KB * 1024, MEM_KB * 1024))


def run(cmd, timeout, cwd=None, log=None):
    t0 = time.time()
    try:
        p = subprocess.run(cmd, cwd=cwd, stdout=subprocess.PIPE, stderr=subprocess.PIPE, timeout=timeout,
                           preexec_fn=_limits, text=True, errors='replace')
        rc, out, err = p.returncode, p.stdout, p.stderr
    except subprocess.TimeoutExpired as e:
        rc, out, err = -9, (e.stdout or b'').decode(errors='replace') if isinstance(e.stdout, bytes) else (e.stdout or ''), 'TIMEOUT'
    dt = time.time() - t0
    if log:
        with open(log, 'a') as f:
            f.write('$ ' + ' '.join(cmd) + f'\n[rc={rc} {dt:.1f}s]\n')
            if err:
                f.write(err[-20000:] + '\n')
    return rc, out, err, dt


class Undecided(Exception):
    pass


def goto_cc_c(src, out, incs, defs, log, timeout=120):
    cmd = ['goto-cc', '-c', src, '-o', out] + [f'-I{i}' for i in incs] + [f'-D{d}' for d in defs]
    rc, o, e, dt = run(cmd, timeout, log=log)
    if rc != 0:
        raise Undecided(f'goto-cc (C) failed on {src}: {e[-2000:]}')


def goto_cc_cxx(src, out, incs, defs, log, timeout=300):
    cmd = ['goto-cc', '-c', '-nostdinc', src, '-o', out] + [f'-I{i}' for i in incs] + [f'-D{d}' for d in defs]
    rc, o, e, dt = run(cmd, timeout, log=log)
    if rc != 0:
        raise Undecided(f'goto-cc (C++) failed on {src}: {(o + e)[-3000:]}')


def link(objs, entry, out, log, timeout=120):
    cmd = ['goto-cc', '--function', entry] + objs + ['-o', out]
    rc, o, e, dt = run(cmd, timeout, log=log)
    if rc != 0:
        raise Undecided(f'goto-cc link failed: {(o + e)[-3000:]}')


def instrument(inp, out, entry, enforce, replace, loops_file, log, timeout=300, extra=None):
    cmd = ['goto-instrument']
    if loops_file:
        cmd += ['--loop-contracts-file', loops_file]
    cmd += ['--dfcc', entry]
    for e in enforce:
        cmd += ['--enforce-contract', e]
    for r in replace:
        cmd += ['--replace-call-with-contract', r]
    if loops_file:
        # without a loops file there is nothing to apply, and DFCC mis-tracks locals of loops it skips
        cmd += ['--apply-loop-contracts']
    if extra:
        cmd += extra
    cmd += [inp, out]
    rc, o, e, dt = run(cmd, timeout, log=log)
    if rc != 0:
        raise Undecided(f'goto-instrument failed: {(o + e)[-4000:]}')
    return dt


# CBMC 6 enables bounds/pointer/div-by-zero/signed-overflow/undefined-shift/pointer-primitive checks and
# unwinding assertions by default; these are added on top.  malloc never fails (T3).
CBMC_FLAGS = ['--conversion-check', '--pointer-overflow-check', '--unwinding-assertions', '--no-malloc-may-fail']


def cbmc(gb, log, timeout, extra=None, trace=True, flags=None):
    """returns dict: {'props': [ {name, description, status, location, trace?} ], 'seconds', 'raw_tail'}.
    The number of object bits is escalated on demand (8 default .. 12): more bits than needed slow the solver down a lot."""
    base = ['cbmc', gb] + (CBMC_FLAGS if flags is None else flags) + ['--json-ui']
    if trace:
        base += ['--trace']
    if extra:
        base += extra
    base = [x for i, x in enumerate(base) if not (x == '--object-bits' or (i > 0 and base[i - 1] == '--object-bits'))]
    t_all = 0.0
    for bits in (None, 9, 10, 11, 12):
        cmd = base + ([] if bits is None else ['--object-bits', str(bits)])
        rc, out, err, dt = run(cmd, timeout, log=log)
        t_all += dt
        if 'too many addressed objects' in out or 'too many addressed objects' in err:
            continue
        break
    dt = t_all
    if rc == -9:
        raise Undecided(f'cbmc timeout after {timeout}s on {gb}')
    try:
        doc = json.loads(out)
    except Exception:
        raise Undecided(f'cbmc produced no parsable result (rc={rc}) on {gb}: {(out[-1500:] + err[-1500:])}')
    props = None
    msgs = []
    for item in doc:
        if 'result' in item:
            props = item['result']
        if 'messageText' in item:
            msgs.append(item['messageText'])
    alltext = '\n'.join(msgs)
    if 'ignoring forall' in alltext or 'ignoring exists' in alltext:
        raise Undecided('quantifier ignored by the SAT back end (probe 12)')
    if props is None:
        raise Undecided(f'cbmc gave no result list (rc={rc}): ' + alltext[-3000:])
    res = []
    for pr in props:
        res.append({'name': pr.get('property'), 'description': pr.get('description'), 'status': pr.get('status'),
                    'location': pr.get('sourceLocation', {}), 'trace': pr.get('trace')})
    m = re.search(r'Runtime decision procedure: ([0-9.]+)s', alltext)
    solver_s = float(m.group(1)) if m else None
    return {'props': res, 'seconds': dt, 'solver_seconds': solver_s, 'messages': alltext[-4000:], 'cmd': ' '.join(cmd)}


def classify(name, desc):
    d = (desc or '').lower()
    n = name or ''
    if 'canary' in d:
        return 'canary'
    if 'slice: foreign case' in d:
        return 'slice'
    if '.postcondition' in n or 'postcondition' in d:
        return 'postcondition'
    if 'loop invariant base' in d or 'loop_invariant_base' in n:
        return 'loop_invariant_base'
    if 'loop invariant step' in d or 'loop_invariant_step' in n or 'preserved' in d and 'invariant' in d:
        return 'loop_invariant_step'
    if 'decreases' in d or 'loop_decreases' in n:
        return 'loop_decreases'
    if 'assigns' in n or 'assignable' in d:
        return 'assigns'
    if '.precondition' in n or 'precondition' in d:
        return 'precondition'
    if 'overflow' in n or 'overflow' in d:
        return 'overflow'
    if 'pointer' in n or 'dereference' in d or 'bounds' in n or 'std::vector' in d or 'model:' in d:
        return 'memory_safety'
    if 'layout' in d:
        return 'layout'
    if 'unwind' in n or 'unwinding' in d:
        return 'unwinding'
    return 'assertion'


def trace_values(trace):
    """flatten a CBMC json trace into {lhs: last value} for scalar assignments"""
    vals = {}
    if not trace:
        return vals
    for st in trace:
        if st.get('stepType') != 'assignment':
            continue
        lhs = st.get('lhs')
        v = st.get('value', {})
        if lhs is None:
            continue
        if 'data' in v:
            vals[lhs] = v['data']
        elif v.get('name') == 'pointer':
            vals[lhs] = v.get('data', 'ptr')
    return vals
