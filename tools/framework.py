"""Group runner, attribution of obligations to properties, verdicts, evidence (DESIGN.md 3.4-3.6)."""
import concurrent.futures as cf
import hashlib
import json
import os
import re
import shutil
import sys
import time
import traceback

import cbmcrun as C
from extract import ExtractError
from mirror import MirrorError
from loopmap import fill as loop_fill, LoopMapError

VERIF = os.path.dirname(os.path.dirname(os.path.abspath(__file__)))
REPO = os.environ.get('VERIF_REPO', '/repo')
MODEL_INC = os.path.join(VERIF, 'model', 'include')
CONTRACTS = os.path.join(VERIF, 'contracts')


DEFAULT_UNWIND = 64


class Group:
    """one goto-instrument + cbmc run: a real function enforced against one (variant) contract"""

    def __init__(self, name, props, function, contract, build, timeout=900, tier='quick', bounded=None,
                 expect_loops=0, note='', spec_checks=False):
        self.name = name
        self.props = props              # property ids this group serves
        self.function = function        # real function(s) under contract (for evidence)
        self.contract = contract
        self.build = build              # callable(work, rulelog) -> dict
        self.timeout = timeout
        self.tier = tier                # 'quick' groups run in both tiers, 'thorough' only there
        self.bounded = bounded          # None or text "unwind N ..." -> never counted as proved
        self.expect_loops = expect_loops
        self.note = note
        self.spec_checks = spec_checks  # thorough tier: also check the safety of the contract text itself


TAG_RX = re.compile(r'/\*@([A-Z0-9,]+)\*/')


def clause_info(path, line, cache={}):
    """(tags, text) of the contract clause starting at `line` of file `path`"""
    if path not in cache:
        try:
            cache[path] = open(path).read().split('\n')
        except OSError:
            cache[path] = []
    lines = cache[path]
    if not (1 <= line <= len(lines)):
        return None, ''
    txt = lines[line - 1]
    m = TAG_RX.search(txt)
    tags = m.group(1).split(',') if m else None
    # clause text: until parentheses balance
    depth, out, started = 0, [], False
    for l in lines[line - 1:line + 12]:
        out.append(l.strip())
        for ch in l:
            if ch == '(':
                depth += 1
                started = True
            elif ch == ')':
                depth -= 1
        if started and depth <= 0:
            break
    return tags, ' '.join(out)


def _template_fallback(path):
    """largest fallback_unwind of a loop-contract template if EVERY entry has one, else None"""
    try:
        tpl = json.load(open(path))
    except Exception:
        return None
    fbs = [lp.get('fallback_unwind') for fn in tpl['functions'] for lps in fn.values() for lp in lps]
    return max(fbs) if fbs and all(fbs) else None


def run_group(g, work, spec_checks, rulelog_cls, extra_cbmc=None):
    spec_checks = spec_checks and g.spec_checks
    """returns dict(name, status in ok|failed|undecided, reason, obligations=[...], seconds, ...)"""
    t0 = time.time()
    gw = os.path.join(work, g.name)
    os.makedirs(gw, exist_ok=True)
    log = os.path.join(gw, 'log.txt')
    res = {'group': g.name, 'function': g.function, 'contract': g.contract, 'status': 'undecided', 'reason': '',
           'obligations': [], 'seconds': 0.0, 'solver_seconds': None, 'rules': {}, 'bounded': g.bounded,
           'dropped': [], 'cmd': ''}
    try:
        rl = rulelog_cls()
        b = g.build(gw, rl)
        res['rules'] = rl.as_dict()
        res['dropped'] = b.get('dropped', [])
        if b.get('precomputed') is not None:
            # a supporting static fact (no verifier run): one obligation per examined item
            obl = [{'name': o['name'], 'class': 'static_fact', 'status': o['status'], 'description': o['description'], 'file': o.get('file', ''),
                    'line': 0, 'function': '', 'tags': None, 'clause': o['description'], 'trace': None} for o in b['precomputed']]
            if len(obl) < b.get('min_obligations', 1):
                raise C.Undecided(f'only {len(obl)} items examined, expected at least {b.get("min_obligations", 1)}')
            res['obligations'] = obl
            res['cmd'] = b.get('cmd', '')
            res['status'] = 'failed' if any(o['status'] == 'FAILURE' for o in obl) else 'ok'
            res['seconds'] = time.time() - t0
            return res
        objs = []
        cdefs = list(b.get('cdefs', []))
        if not spec_checks:
            cdefs.append('SPEC_CHECKS_OFF')
        for i, csrc in enumerate(b['c_sources']):
            o = os.path.join(gw, f'c{i}.o')
            C.goto_cc_c(csrc, o, [gw, CONTRACTS] + b.get('c_incs', []), cdefs, log)
            objs.append(o)
        for i, xsrc in enumerate(b['cxx_sources']):
            o = os.path.join(gw, f'x{i}.o')
            C.goto_cc_cxx(xsrc, o, [MODEL_INC, REPO, os.path.join(REPO, 'Compiler/include')] + b.get('cxx_incs', []),
                          b.get('cxxdefs', []), log)
            objs.append(o)
        gb = os.path.join(gw, 'g.gb')
        C.link(objs, b['entry'], gb, log)
        loops_file = None
        loops_waived = False
        fallback_unwind = None
        if b.get('loops_tpl'):
            loops_file = os.path.join(gw, 'loops.json')
            fb = []
            if loop_fill(b['loops_tpl'], gb, loops_file, incdirs=[gw, CONTRACTS], fallbacks=fb) == 0:
                loops_file = None  # the function has become loop free / its loop changed shape: no loop contract applies
                loops_waived = True
            if fb:
                # a loop whose shape no longer matches its loop contract (iterator locals gone): the function contract is
                # checked with the loop unwound instead - BOUNDED (paths beyond the bound are cut), refutations stay valid
                res['bounded'] = (res['bounded'] + '; ' if res['bounded'] else '') + f'loop contract not applicable to the changed loop: --unwind {max(fb)} without unwinding assertions'
                fallback_unwind = max(fb)
        gi = os.path.join(gw, 'gi.gb')
        if b.get('enforce') or b.get('replace'):
            try:
                C.instrument(gb, gi, b['entry'], b.get('enforce', []), b.get('replace', []), loops_file, log)
            except C.Undecided:
                tpl_fb = _template_fallback(b.get('loops_tpl')) if loops_file else None
                if not tpl_fb:
                    raise
                # the loop contracts no longer fit the function's loops (goto-instrument rejects them): check the function
                # contract with the loops unwound instead - BOUNDED, refutations stay valid
                loops_file, loops_waived, fallback_unwind = None, True, tpl_fb
                res['bounded'] = (res['bounded'] + '; ' if res['bounded'] else '') + f'loop contracts not applicable to the changed loops: --unwind {tpl_fb} without unwinding assertions'
                C.instrument(gb, gi, b['entry'], b.get('enforce', []), b.get('replace', []), None, log)
        else:
            gi = gb
        extra = list(b.get('cbmc_extra', [])) + list(extra_cbmc or [])
        if spec_checks and b.get('cbmc_flags') is None:
            extra += ['--pointer-overflow-check']
        flags = b.get('cbmc_flags')
        if fallback_unwind:
            flags = [f for f in (flags if flags is not None else C.CBMC_FLAGS) if f != '--unwinding-assertions'] + ['--unwind', str(fallback_unwind), '--no-unwinding-assertions']
        if '--unwind' not in (flags if flags is not None else C.CBMC_FLAGS) and '--unwind' not in extra:
            # every loop of a function under contract is closed by a loop contract; a loop that is NOT (one that a change added)
            # must not make the run diverge: it is unwound DEFAULT_UNWIND times with unwinding assertions, whose failure is
            # "undecided" (no loop contract for that loop), never a violation
            extra = extra + ['--unwind', str(DEFAULT_UNWIND)]
        r = C.cbmc(gi, log, g.timeout, extra=extra, flags=flags)
        res['cmd'] = r['cmd'].replace(gw, '<work>')
        res['solver_seconds'] = r['solver_seconds']
        obl = []
        for pr in r['props']:
            loc = pr['location'] or {}
            cls = C.classify(pr['name'], pr['description'])
            if loc.get('function') == '_fn' and cls in ('memory_safety', 'overflow', 'assertion'):
                cls = 'spec_text'  # safety check inside a loop-invariant predicate (evaluated unguarded by CBMC)
            f = loc.get('file', '')
            ln = int(loc.get('line', 0) or 0)
            tags, ctext = (None, '')
            if cls in ('postcondition', 'precondition') and f:
                fp = f if os.path.isabs(f) else os.path.join(loc.get('workingDirectory', ''), f)
                tags, ctext = clause_info(fp, ln)
                if tags and 'CANARY' in tags:
                    # a reachability canary written as a postcondition `case ==> false` (tagged /*@CANARY*/): it must FAIL,
                    # which shows that the case is reachable under the callee contracts (no vacuous proof of that case)
                    cls = 'canary'
            obl.append({'name': pr['name'], 'class': cls, 'status': pr['status'], 'description': pr['description'],
                        'file': os.path.basename(f), 'line': ln, 'function': loc.get('function', ''), 'tags': tags,
                        'clause': ctext, 'trace': pr['trace'] if pr['status'] == 'FAILURE' else None})
        res['obligations'] = obl
        # vacuity guards
        other = [o for o in obl if o['status'] not in ('SUCCESS', 'FAILURE')]
        definite = [o for o in obl if o['status'] == 'FAILURE' and o['class'] not in ('canary', 'spec_text', 'unwinding')]
        unw = [o for o in obl if o['status'] == 'FAILURE' and o['class'] == 'unwinding']
        if unw and not definite:
            raise C.Undecided(f'{len(unw)} unwinding assertions failed ({unw[0]["name"]}): a loop without loop contract exceeds the unwinding bound')
        if other and not definite:
            raise C.Undecided(f'{len(other)} obligations with status {other[0]["status"]} (solver error / out of memory): ' + r['messages'][-300:])
        if other:
            # a counterexample is definitive even when the solver left other obligations undecided
            res['reason'] = f'{len(other)} obligations left {other[0]["status"]} by the solver; {len(definite)} definite failures'
        can = [o for o in obl if o['class'] == 'canary']
        if not can:
            raise C.Undecided('no reachability canary in this group')
        for o in can:
            if o['status'] != 'FAILURE' and not definite:
                raise C.Undecided(f'reachability canary {o["name"]} did not fail: requires/assumptions are contradictory (vacuous proof)')
        nloop = len({o['name'].rsplit('.', 1)[0] + o['function'] for o in obl if o['class'] == 'loop_invariant_step'})
        if g.expect_loops and not loops_waived and not any(o['class'] == 'loop_invariant_step' for o in obl):
            raise C.Undecided('loop contract was dropped: no loop_invariant_step obligations generated')
        if b.get('min_obligations') and len(obl) < b['min_obligations']:
            raise C.Undecided(f'only {len(obl)} obligations generated, expected at least {b["min_obligations"]}')
        real_fail = [o for o in obl if o['status'] == 'FAILURE' and o['class'] not in ('canary', 'spec_text', 'unwinding')]
        res['status'] = 'failed' if real_fail else 'ok'
    except (C.Undecided, ExtractError, MirrorError, LoopMapError) as e:
        res['status'] = 'undecided'
        res['reason'] = f'{type(e).__name__}: {e}'
    except Exception as e:  # tool crash etc.: never a violation
        res['status'] = 'undecided'
        res['reason'] = 'internal error: ' + traceback.format_exc()[-1500:]
    res['seconds'] = time.time() - t0
    return res


def attributed(o, group_props, pid):
    """is obligation o part of property pid's proof?"""
    if o['class'] in ('canary', 'spec_text'):
        return False
    if o['class'] == 'unwinding' and o['status'] == 'FAILURE':
        return False  # a loop exceeded the unwinding bound: the group is undecided unless it has definite failures (run_group)
    if pid == 'C18':
        # no hidden shared state: only the frame obligations (every write stays inside the assigns clause, which names
        # object state reached through the arguments and verification ghosts, never static storage of the library)
        return o['class'] in ('assigns', 'static_fact') and pid in group_props
    if o['tags'] is not None:
        return pid in o['tags']
    return pid in group_props


def load_known():
    path = os.path.join(VERIF, 'known_findings.txt')
    out = []
    if os.path.exists(path):
        for l in open(path):
            l = l.strip()
            if l.startswith('finding:'):
                m = re.match(r'finding:\s+property=(\S+)\s+obligation=(\S+)\s+(.*)', l)
                if m:
                    out.append({'property': m.group(1), 'obligation': m.group(2), 'text': m.group(3)})
    return out
