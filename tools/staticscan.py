"""Supporting static fact for C18: the library sources define no mutable static storage.

Token-level scan (tools/cpptok.py) of every .cpp/.hpp/.c/.h/.l file under Compiler/ and VM/ (tests excluded):
  S1  a declaration introduced by `static` (or `thread_local`) that declares a VARIABLE - a static local, a static data
      member, a file-static object - and is not `const`/`constexpr`;
  S2  a namespace-scope variable definition that is not const, unless it is never written anywhere in the library
      (the two read-only message tables token_map and op_to_str are of this kind).
Every examined declaration is one obligation: SUCCESS (function / const / never written) or FAILURE (mutable static storage).
This is a syntactic fact, not a proof about behaviour; it complements the frame obligations (see DESIGN.md 10.3)."""
import os
import re
from cpptok import tokenize, match_close

SKIP_DIRS = ('test', 'tests', '_build', 'build', '.git')
EXTS = ('.cpp', '.hpp', '.c', '.h', '.cc', '.hh', '.l')
WRITE_AFTER = ('=', '+=', '-=', '*=', '/=', '%=', '|=', '&=', '^=', '<<=', '>>=', '++', '--')
MUTATORS = ('push_back', 'insert', 'emplace', 'emplace_back', 'erase', 'clear', 'pop_back', 'resize', 'assign', 'swap', 'append')


def _code(toks):
    return [t for t in toks if t.kind not in ('ws', 'com', 'pp')]


def _files(repo):
    out = []
    for top in ('Compiler', 'VM'):
        for d, dirs, files in os.walk(os.path.join(repo, top)):
            dirs[:] = [x for x in dirs if x not in SKIP_DIRS]
            for f in sorted(files):
                if f.endswith(EXTS):
                    out.append(os.path.join(d, f))
    return sorted(out)


def _scopes(ct):
    """scope kind at each token: list of 'ns' | 'class' | 'fn' | 'init' (innermost last)"""
    stack = []
    kinds = []
    for k, t in enumerate(ct):
        if t.text == '}' and stack:
            stack.pop()
        kinds.append(tuple(stack))
        if t.text == '{':
            # classify by what precedes
            j = k - 1
            kind = 'init'
            if any(s in ('fn', 'init') for s in stack):
                kind = 'fn' if 'fn' in stack else 'init'
            else:
                # walk back to the start of the declaration
                back = []
                while j >= 0 and ct[j].text not in (';', '}', '{'):
                    back.append(ct[j].text)
                    j -= 1
                back.reverse()
                if 'namespace' in back or (back[:1] == ['extern'] and len(back) == 2):
                    kind = 'ns'
                elif any(x in back for x in ('struct', 'class', 'union')) and ')' not in back:
                    kind = 'class'
                elif 'enum' in back:
                    kind = 'init'
                elif back and (back[-1] == ')' or back[-1] in ('const', 'noexcept', 'override', 'final') or ')' in back and '=' not in back):
                    kind = 'fn'
                else:
                    kind = 'init'
            stack.append(kind)
    return kinds


def _written(name, all_code):
    """is `name` the target of a write anywhere (syntactically)?"""
    for path, ct in all_code:
        for k, t in enumerate(ct):
            if t.kind != 'id' or t.text != name:
                continue
            if k > 0 and ct[k - 1].text in ('.', '->', '::'):
                continue
            j = k + 1
            # skip subscripts and member selections: name[...]...  name.x.y
            while j < len(ct):
                if ct[j].text == '[':
                    j = match_close(ct, j) + 1
                elif ct[j].text in ('.', '->') and j + 1 < len(ct):
                    if ct[j + 1].text in MUTATORS and j + 2 < len(ct) and ct[j + 2].text == '(':
                        return f'{os.path.basename(path)}: {name}.{ct[j + 1].text}(...)'
                    j += 2
                else:
                    break
            if j < len(ct) and ct[j].text in WRITE_AFTER:
                # the defining occurrence `T name[] = {...}` is not a write: the previous token is then a type/declarator token
                prev = ct[k - 1].text if k else ''
                if ct[j].text == '=' and (ct[k - 1].kind == 'id' or prev in ('>', '*', '&')) and prev not in ('return', 'else'):
                    continue
                return f'{os.path.basename(path)}: {name} {ct[j].text}'
            if k > 0 and ct[k - 1].text in ('++', '--'):
                return f'{os.path.basename(path)}: {ct[k - 1].text}{name}'
    return None


def scan(repo):
    """returns (obligations, files_scanned)"""
    files = _files(repo)
    all_code = []
    for p in files:
        try:
            all_code.append((p, _code(tokenize(open(p, errors='replace').read()))))
        except Exception:
            all_code.append((p, []))
    obl = []
    for path, ct in all_code:
        rel = os.path.relpath(path, repo)
        if rel.endswith('.l'):
            continue  # flex source: its C parts are scanned in the generated lex.yy.c
        kinds = _scopes(ct)
        k = 0
        while k < len(ct):
            t = ct[k]
            sc = kinds[k]
            infn = 'fn' in sc
            if t.kind == 'id' and t.text in ('static', 'thread_local') and 'init' not in sc:
                # S1: the declaration up to ';' '{' or '='
                j = k + 1
                decl = []
                depth = 0
                while j < len(ct):
                    x = ct[j].text
                    if x in ('<',):
                        depth += 1
                    elif x in ('>',):
                        depth -= 1
                    if depth <= 0 and x in (';', '{', '=', '('):
                        break
                    decl.append(ct[j])
                    j += 1
                end = ct[j].text if j < len(ct) else ';'
                words = [d.text for d in decl]
                name = next((d.text for d in reversed(decl) if d.kind == 'id'), '?')
                line = ct[k].pos if isinstance(ct[k].pos, int) else 0
                what = ' '.join(words)[:80]
                is_fn = (end == '(' and not infn)
                if end == '(' and infn:
                    is_fn = False  # block scope: `static T x(args);` declares a variable
                if 'operator' in words:
                    is_fn = True
                const = 'const' in words or 'constexpr' in words or 'constinit' in words
                if is_fn:
                    status, why = 'SUCCESS', 'function'
                elif const:
                    status, why = 'SUCCESS', 'const object'
                else:
                    status, why = 'FAILURE', ('static local' if infn else ('static data member' if 'class' in sc else 'file-static object'))
                obl.append({'name': f'static_storage.{rel}.{name}', 'status': status, 'file': rel,
                            'description': f'no mutable static storage: `{t.text} {what}` in {rel} is a {why}'})
                k = j
                continue
            k += 1
        # S2: namespace-scope variable definitions
        k = 0
        start = 0
        while k < len(ct):
            sc = kinds[k]
            if all(s == 'ns' for s in sc):
                if ct[k].text in (';', '}'):
                    start = k + 1
                elif ct[k].text == '{':
                    # skip bodies at namespace scope (functions, classes, initialisers) - but an initialiser `T x[] = {` is S2
                    stmt = ct[start:k]
                    words = [x.text for x in stmt]
                    if '=' in words and words and words[0] not in ('using', 'typedef', 'template', 'static', 'extern', 'namespace', 'struct', 'class', 'enum', 'union') \
                            and '(' not in words[:words.index('=')]:
                        _s2(stmt, words, rel, obl, all_code)
                    k = match_close(ct, k)
                    start = k + 1
                elif ct[k].text == '=' and ct[k + 1].text != '{':
                    stmt = ct[start:k + 1]
                    words = [x.text for x in stmt]
                    if words and words[0] not in ('using', 'typedef', 'template', 'static', 'extern', 'namespace', 'struct', 'class', 'enum', 'union') \
                            and '(' not in words and 'operator' not in words:
                        _s2(stmt, words, rel, obl, all_code)
                    while k < len(ct) and ct[k].text != ';':
                        if ct[k].text in ('{', '('):
                            k = match_close(ct, k)
                        k += 1
                    start = k + 1
            k += 1
    return obl, [os.path.relpath(p, repo) for p in files]


def _s2(stmt, words, rel, obl, all_code):
    eq = words.index('=')
    ids = [x for x in stmt[:eq] if x.kind == 'id']
    if len(ids) < 2:
        return  # an assignment statement cannot occur at namespace scope; a lone identifier is not a definition
    name = ids[-1].text
    what = ' '.join(words[:eq])[:80]
    if 'const' in words[:eq] or 'constexpr' in words[:eq]:
        obl.append({'name': f'static_storage.{rel}.{name}', 'status': 'SUCCESS', 'file': rel,
                    'description': f'no mutable static storage: `{what}` in {rel} is a const object'})
        return
    w = _written(name, all_code)
    obl.append({'name': f'static_storage.{rel}.{name}', 'status': 'FAILURE' if w else 'SUCCESS', 'file': rel,
                'description': f'no mutable static storage: namespace-scope object `{what}` in {rel} ' + (f'is written ({w})' if w else 'is never written (read-only table)')})


if __name__ == '__main__':
    import sys
    o, fs = scan(sys.argv[1] if len(sys.argv) > 1 else '/repo')
    print(len(fs), 'files')
    for x in o:
        if x['status'] != 'SUCCESS' or '-v' in sys.argv:
            print(x['status'], x['name'], '|', x['description'])
    print(len(o), 'declarations examined,', sum(1 for x in o if x['status'] == 'FAILURE'), 'mutable')
