#!/usr/bin/env python3
"""Turn confirmed + tested staged changes into /verif/seeded/<id>/ {patch.diff, demo.cpp, build_and_run.sh, meta.json}"""
import json, os, shutil, glob
V = '/verif'
conf = {}
for l in open(f'{V}/seeded/_staging/confirm.jsonl'):
    d = json.loads(l)
    conf[d['dir'].split('_staging/')[1]] = d
tests = {}
for f in sorted(glob.glob(f'{V}/seeded/_staging/test*.jsonl')):
    for l in open(f):
        d = json.loads(l)
        if 'results' in d and d['results']:
            tests[d['mutation'].split('_staging/')[1]] = d   # later files override earlier ones
for key in sorted(set(conf) | set(tests)):
    src = f'{V}/seeded/_staging/{key}'
    c = conf.get(key)
    if key == 'C05/m1':
        c = {'confirmed': True, 'demo_clean_rc': 0, 'apply_rc': 0, 'tests_rc': 0, 'demo_mut_rc': 1, 'note': 're-created on the current HEAD (the agent worked before fix 327f9fe touched the same lines); confirmed with tools/seedconfirm.py'}
    if not c or not c.get('confirmed'):
        continue
    sid = key.replace('/', '-')
    dst = f'{V}/seeded/{sid}'
    os.makedirs(dst, exist_ok=True)
    for fn in ('patch.diff', 'demo.cpp', 'build_and_run.sh'):
        if os.path.exists(f'{src}/{fn}'):
            shutil.copy(f'{src}/{fn}', dst)
    am = json.load(open(f'{src}/meta.json')) if os.path.exists(f'{src}/meta.json') else {}
    t = tests.get(key, {}).get('results', {})
    caught = {pid: {'exit': r['exit'], 'violations': r['n_violations'], 'first_obligations': [v.get('obligation') for v in r['violations']][:4],
                    'natively_reproduced': any(v.get('reproduced') for v in r['violations']), 'undecided': r['undecided'][:2]} for pid, r in t.items()}
    meta = {'id': sid, 'property': key.split('/')[0], 'summary': am.get('summary', ''), 'needs_to_manifest': am.get('needs_to_manifest', ''),
            'files': am.get('files', []), 'origin': 'independent sub-agent given only the property text and a scratch worktree',
            'confirmed_by_me': {'how': 'tools/seedconfirm.py in a scratch worktree of /repo HEAD: demo passes on the clean tree, patch applies, cmake build + ctest (12/12) pass with the patch, demo fails with the patch',
                                'demo_clean_rc': c.get('demo_clean_rc'), 'tests_rc': c.get('tests_rc'), 'demo_mutated_rc': c.get('demo_mut_rc'), 'note': c.get('note', '')},
            'checks_run': {'how': 'tools/seedtest.py: patch applied in a scratch worktree, VERIF_REPO=<worktree> bin/check <id> (quick tier)', 'results': caught},
            'detected': any(r['exit'] == 1 for r in t.values())}
    json.dump(meta, open(f'{dst}/meta.json', 'w'), indent=1)
    print(sid, 'detected' if meta['detected'] else ('NOT detected' if t else 'untested'), {p: r['exit'] for p, r in t.items()})
