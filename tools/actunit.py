"""Verification unit of VM::Activation::getActivationVariables (VM/src/vm.cpp): the per-activation variable view."""
import os
from cpptok import untok
from extract import Source, leftovers, rewrite_range_for_tbl
import vmunit

REPO = os.environ.get('VERIF_REPO', '/repo')


def build_act_unit(work, log, name='x_act.cpp'):
    src = Source(os.path.join(REPO, 'VM/src/vm.cpp'))
    q = 'VM::Activation::getActivationVariables'
    ft, (nm, lp, rp, lb, rb), _ = src.function_tokens(q)
    ft = rewrite_range_for_tbl(ft, lb, [(r'stack_map\.map', {'container_type': 'std::map<RegisterIndex, std::string>',
                                                               'iter_type': 'std::map<RegisterIndex, std::string>::iterator',
                                                               'elem_decl': 'std::pair<RegisterIndex, std::string> &@'})], ['actv'], log, q)
    text = vmunit.PRELUDE + untok(ft) + '''
extern "C" {
void w_getActivationVariables(void *act, void *res) { *(Theo::VM::Activation::Data *)res = ((Theo::VM::Activation *)act)->getActivationVariables(); }
}
'''
    leftovers(text, name)
    with open(os.path.join(work, name), 'w') as f:
        f.write(text)
    return name
