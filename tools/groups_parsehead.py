"""Obligation group of the head of Theo::parse (Compiler/src/parse.cpp): what the scanner is given."""
import os
from framework import Group, CONTRACTS
import parsepre
import scanunit


def _build(gw, rl):
    name = parsepre.build_parsepre_unit(gw, rl)
    return {'cxx_sources': [os.path.join(gw, name)], 'cxxdefs': ['MODEL_MAP_CAP=5', 'MODEL_MAP_EXACT_SEARCH'],
            'dropped': ['libstdc++ headers (model/include)', 'Theo::parse after the call of Theo::scan (lambda filter of the scan errors, extract_macros, apply_macros, parser driver loop)',
                        'Theo::scan: used through a contract that records the file map and main name it is given'],
            'cbmc_flags': ['--unwinding-assertions', '--no-malloc-may-fail', '--unwind', '8'], 'min_obligations': 5,
            'c_sources': [os.path.join(CONTRACTS, 'parse_head.c')], 'entry': 'h_parse_head', 'enforce': ['w_parse_head/c_parse_head'],
            'replace': ['w_scan_c/c_scan_c']}


def _build_req(gw, rl):
    scanunit.scan_mirror(gw)
    name = parsepre.build_parsereq_unit(gw, rl)
    return {'cxx_sources': [os.path.join(gw, name)], 'cxxdefs': ['MODEL_VECTOR_CAP=4'],
            'dropped': ['libstdc++ headers (model/include)', 'Theo::parse before the call of Theo::scan (group parseB_head) and from the call of Theo::extract_macros on (macro passes, parser driver loop, error merge, return)'],
            'cbmc_flags': ['--unwinding-assertions', '--no-malloc-may-fail', '--unwind', '6'], 'min_obligations': 5,
            'c_sources': [os.path.join(CONTRACTS, 'parse_req.c')], 'entry': 'h_parse_requests', 'enforce': ['w_parse_requests/c_parse_requests'], 'replace': []}


def groups():
    return [Group('parseB_requests', ['C15', 'C02'], 'Theo::parse, collection of the file requests between the calls of Theo::scan and Theo::extract_macros (Compiler/src/parse.cpp)',
                  'c_parse_requests', _build_req, timeout=600,
                  bounded='BOUNDED stand-in: at most 3 scanner errors (vector capacity 4, --unwind 6 with unwinding assertions)',
                  note='std::for_each over a lambda rewritten to the equivalent iterator loop (N19)'),
            Group('parseB_head', ['C15', 'C02'], 'Theo::parse, head up to the call of Theo::scan (Compiler/src/parse.cpp)', 'c_parse_head', _build, timeout=600,
                  bounded='BOUNDED stand-in: at most 3 supplied files (map capacity 5, lookups by complete linear search, --unwind 8 with unwinding assertions)',
                  note='Theo::scan replaced by a contract that records its arguments')]
