#!/bin/bash
# run every claimed check (quick tier by default) and report exit codes
cd /verif
TIER=${1:-quick}
for p in $(python3 -c "import json; print(' '.join(c['property_id'] for c in json.load(open('MANIFEST.json'))['checks']))"); do
  s=$(date +%s)
  bin/check $p --tier $TIER > .work/runall-$p.log 2>&1
  rc=$?
  e=$(date +%s)
  echo "$p exit=$rc $((e-s))s $(grep -E "^$p \[" .work/runall-$p.log)"
done
