/* macros of the debugger contracts (shared by contracts/vm_dbg.c and the loop-invariant templates) */
#ifndef VM_DBG_MACROS_H
#define VM_DBG_MACROS_H
#include "vm_common.h"

typedef struct m_map_int_BreakPoint_e li_e;
typedef struct m_map_BreakPoint_vector_ProgramIndex_e pb_e;
typedef struct m_BreakPoint bp_t;

/* ghost state of the debugger contracts */
#include "model_ghost_c.h"
extern int gc_op, gc_p0, gc_p1, gc_p2; /* pre-state snapshot of code[g_c] */
extern unsigned long g_w;              /* ghost entry of potential_breaks */
extern unsigned long g_e;              /* ghost position in the enabled set */
extern long ge_file;                   /* snapshot of enabled[g_e] */
extern int ge_line;
extern unsigned long g_s;              /* ghost position in the site list of entry g_w */
extern int *g_cur_lo, *g_cur_hi;       /* site list of the enabled location being processed (set by the at-use hook) */

#define OLD(e) __CPROVER_old(e)
#define LI(p) (V(p)->code.line_info._d)
#define NLI(p) (V(p)->code.line_info._n)
#define LICAP(p) (V(p)->code.line_info._cap)
#define PB(p) (V(p)->code.potential_breaks._d)
#define NPB(p) (V(p)->code.potential_breaks._n)
#define PBCAP(p) (V(p)->code.potential_breaks._cap)
#define EN(p) (V(p)->enabled_breakpoints._d)
#define NEN(p) (V(p)->enabled_breakpoints._n)
#define ENCAP(p) (V(p)->enabled_breakpoints._cap)
#define SITES(p, e) (PB(p)[e].second)
#define BPEQ(a, f, l) ((a).file._id == (f) && (a).line == (l))
#define IS_SITE_OP(o) ((o) == OP_POTENTIAL_BREAK || (o) == OP_BREAK)
/* site list e is a valid object of its own (is_fresh assigns the stored pointer; a pointer merely *assumed* equal to an
 * object cannot be dereferenced by CBMC's symbolic execution) */
#ifdef LIST_CAP /* bounded stand-in for the site-list length (unwinding groups): constant-size lists */
#define LIST_CAP_MAX LIST_CAP
#define LIST_ALLOC(cap) LIST_CAP
#else
#define LIST_CAP_MAX INT_MAX
#define LIST_ALLOC(cap) (cap)
#endif
#define REQ_LIST(p, e)                                                                    \
  __CPROVER_requires((e) >= NPB(p) || (SITES(p, e)._n <= SITES(p, e)._cap && SITES(p, e)._cap <= LIST_CAP_MAX)) \
  __CPROVER_requires((e) >= NPB(p) || __CPROVER_is_fresh(SITES(p, e)._d, LIST_ALLOC(SITES(p, e)._cap) * sizeof(int)))
/* iterator q walks the list [lo, end).  Written with integer casts: in a loop invariant q is havocked, and CBMC attaches
 * (unguarded) pointer-relation checks to `q >= lo` / `end - q` on pointers; the numeric encoding of two pointers into the
 * same object orders them by offset */
#define PN(q) ((unsigned long)(q))
#define IT_IN_LIST(q, lo, end)                                                            \
  (__CPROVER_same_object(q, end) && __CPROVER_same_object(lo, end) && PN(q) >= PN(lo) && PN(q) <= PN(end) && (PN(end) - PN(q)) % 4 == 0)
/* I5/TBL instance: a listed site is a breakpoint instruction of the program */
#define SITE_VAL_OK(p, v) ((v) >= 0 && (unsigned long)(v) < N(p) && IS_SITE_OP(OPC(p, v)))

#define CODE_G_PARAMS_SAME(p)                                                             \
  (g_c >= N(p) || (PAR(p, g_c, 0) == gc_p0 && PAR(p, g_c, 1) == gc_p1 && PAR(p, g_c, 2) == gc_p2))
/* only breakpoint sites are rewritten, and only within {POTENTIAL_BREAK, BREAK} */
#define CODE_G_OP_DEBUGGER_ONLY(p)                                                        \
  (g_c >= N(p) || OPC(p, g_c) == gc_op || (IS_SITE_OP(gc_op) && IS_SITE_OP(OPC(p, g_c))))

/* TBL_CAP: bounded stand-in for the number of entries of potential_breaks / enabled_breakpoints (arrays of constant
 * size; byte-granular access to symbolic-size arrays of 12/36-byte structs does not scale in CBMC); undefined: unbounded */
#ifdef TBL_CAP
#define TBL_CAP_MAX TBL_CAP
#define TBL_ALLOC(cap) TBL_CAP
#else
#define TBL_CAP_MAX INT_MAX
#define TBL_ALLOC(cap) (cap)
#endif
#ifdef CODE_CAP /* bounded stand-in for the program size (unwinding groups only) */
#define CODE_CAP_MAX CODE_CAP
#define CODE_ALLOC(n) CODE_CAP
#else
#define CODE_CAP_MAX INT_MAX
#define CODE_ALLOC(n) (n)
#endif
#define REQ_DBG_SHAPE(p)                                                                  \
  __CPROVER_requires(__CPROVER_is_fresh(p, sizeof(vm_t)))                                 \
  __CPROVER_requires(g_vm == V(p))                                                        \
  __CPROVER_requires(N(p) >= 1 && N(p) <= CODE_CAP_MAX && V(p)->code.code._cap == N(p))   \
  __CPROVER_requires(__CPROVER_is_fresh(CODE(p), CODE_ALLOC(N(p)) * sizeof(struct m_Instruction))) \
  __CPROVER_requires(M(p) <= MCAP(p) && MCAP(p) <= INT_MAX)                               \
  __CPROVER_requires(__CPROVER_is_fresh(DATA(p), MCAP(p) * sizeof(int)))                  \
  __CPROVER_requires(D(p) <= DCAP(p) && DCAP(p) <= INT_MAX)                               \
  __CPROVER_requires(__CPROVER_is_fresh(STK(p), DCAP(p) * sizeof(act_t)))                 \
  __CPROVER_requires(NLI(p) <= LICAP(p) && LICAP(p) <= INT_MAX)                           \
  __CPROVER_requires(__CPROVER_is_fresh(LI(p), LICAP(p) * sizeof(li_e)))                  \
  __CPROVER_requires(NEN(p) <= ENCAP(p) && ENCAP(p) <= TBL_CAP_MAX)                       \
  __CPROVER_requires(__CPROVER_is_fresh(EN(p), TBL_ALLOC(ENCAP(p)) * sizeof(bp_t)))       \
  __CPROVER_requires(NPB(p) <= PBCAP(p) && PBCAP(p) <= TBL_CAP_MAX)                       \
  __CPROVER_requires(__CPROVER_is_fresh(PB(p), TBL_ALLOC(PBCAP(p)) * sizeof(pb_e)))       \
  __CPROVER_requires(IP(p) >= 0 && (unsigned long)IP(p) < N(p))                           \
  __CPROVER_requires(*(unsigned char *)&STEPPING(p) <= 1)                                 \
  __CPROVER_requires(g_c >= N(p) || (gc_op == OPC(p, g_c) && gc_p0 == PAR(p, g_c, 0) && gc_p1 == PAR(p, g_c, 1) && gc_p2 == PAR(p, g_c, 2))) \
  __CPROVER_requires(g_e >= NEN(p) || (ge_file == EN(p)[g_e].file._id && ge_line == EN(p)[g_e].line))
#endif
