/* macros of the debugger contracts (shared by contracts/vm_dbg.c and the loop-invariant templates) */
#ifndef VM_DBG_MACROS_H
#define VM_DBG_MACROS_H
#include "vm_common.h"

typedef struct m_map_int_BreakPoint_e li_e;
typedef struct m_map_BreakPoint_vector_ProgramIndex_e pb_e;
typedef struct m_BreakPoint bp_t;

/* ghost state of the debugger contracts */
extern unsigned long model_g_map, model_g_set, model_last_map, model_last_set, model_pick_map, model_pick_set;
extern int gc_op, gc_p0, gc_p1, gc_p2; /* pre-state snapshot of code[g_c] */
extern unsigned long g_w;              /* ghost entry of potential_breaks */
extern unsigned long g_e;              /* ghost position in the enabled set */
extern long ge_file;                   /* snapshot of enabled[g_e] */
extern int ge_line;
extern int *g_arena;                   /* all site lists live in this one object (their contents are never written) */
extern unsigned long g_arena_n;
extern int *g_sp;                      /* ghost pointer to one element of a site list */

#define OLD(e) __CPROVER_old(e)
#define LI(p) (V(p)->code.line_info._d)
#define NLI(p) (V(p)->code.line_info._n)
#define LICAP(p) (V(p)->code.line_info._cap)
#define PB(p) (V(p)->code.potential_breaks._d)
#define NPB(p) (V(p)->code.potential_breaks._n)
#define PBCAP(p) (V(p)->code.potential_breaks._cap)
#define EN(p) (V(p)->enabled_breakpoints._d)
#define NEN(p) (V(p)->enabled_breakpoints._n)
#define ENCAP(p) (V(p)->enabled_breakpoints._cap)
#define SITES(p, e) (PB(p)[e].second)
#define BPEQ(a, f, l) ((a).file._id == (f) && (a).line == (l))
#define IS_SITE_OP(o) ((o) == OP_POTENTIAL_BREAK || (o) == OP_BREAK)
/* byte offset of q inside the arena object (pointer difference: the predicate parser of loop-contract files
 * does not know __CPROVER_POINTER_OFFSET) */
#define OFF(q) ((const char *)(q) - (const char *)g_arena)

#define ENOFF(q) ((const char *)(q) - (const char *)EN(g_vm))
/* site list e lies inside the arena */
#define LIST_OK(p, e)                                                                     \
  (SITES(p, e)._n <= SITES(p, e)._cap && __CPROVER_same_object(SITES(p, e)._d, g_arena) && OFF(SITES(p, e)._d) >= 0 && \
   OFF(SITES(p, e)._d) % 4 == 0 && (unsigned long)OFF(SITES(p, e)._d) / 4 + SITES(p, e)._cap <= g_arena_n)
/* q points at an element of site list e */
#define IN_LIST(p, e, q)                                                                  \
  (__CPROVER_same_object(q, g_arena) && (q) >= SITES(p, e)._d && (q) < SITES(p, e)._d + SITES(p, e)._n && OFF(q) % 4 == 0)
/* I5/TBL instance: a listed site is a breakpoint instruction of the program */
#define SITE_VAL_OK(p, v) ((v) >= 0 && (unsigned long)(v) < N(p) && IS_SITE_OP(OPC(p, v)))

#define CODE_G_PARAMS_SAME(p)                                                             \
  (g_c >= N(p) || (PAR(p, g_c, 0) == gc_p0 && PAR(p, g_c, 1) == gc_p1 && PAR(p, g_c, 2) == gc_p2))
/* only breakpoint sites are rewritten, and only within {POTENTIAL_BREAK, BREAK} */
#define CODE_G_OP_DEBUGGER_ONLY(p)                                                        \
  (g_c >= N(p) || OPC(p, g_c) == gc_op || (IS_SITE_OP(gc_op) && IS_SITE_OP(OPC(p, g_c))))

/* iterator q walks [.., end) inside the arena */
#define IT_IN_ARENA(q, end)                                                               \
  (__CPROVER_same_object(q, g_arena) && __CPROVER_same_object(end, g_arena) && (q) <= (end) && OFF(q) >= 0 && OFF(q) % 4 == 0 && \
   OFF(end) % 4 == 0 && (unsigned long)OFF(end) / 4 <= g_arena_n)

#define REQ_DBG_SHAPE(p)                                                                  \
  __CPROVER_requires(__CPROVER_is_fresh(p, sizeof(vm_t)))                                 \
  __CPROVER_requires(g_vm == V(p))                                                        \
  __CPROVER_requires(N(p) >= 1 && N(p) <= INT_MAX && V(p)->code.code._cap == N(p))        \
  __CPROVER_requires(__CPROVER_is_fresh(CODE(p), N(p) * sizeof(struct m_Instruction)))    \
  __CPROVER_requires(M(p) <= MCAP(p) && MCAP(p) <= INT_MAX)                               \
  __CPROVER_requires(__CPROVER_is_fresh(DATA(p), MCAP(p) * sizeof(int)))                  \
  __CPROVER_requires(D(p) <= DCAP(p) && DCAP(p) <= INT_MAX)                               \
  __CPROVER_requires(__CPROVER_is_fresh(STK(p), DCAP(p) * sizeof(act_t)))                 \
  __CPROVER_requires(NLI(p) <= LICAP(p) && LICAP(p) <= INT_MAX)                           \
  __CPROVER_requires(__CPROVER_is_fresh(LI(p), LICAP(p) * sizeof(li_e)))                  \
  __CPROVER_requires(NEN(p) <= ENCAP(p) && ENCAP(p) <= INT_MAX)                           \
  __CPROVER_requires(__CPROVER_is_fresh(EN(p), ENCAP(p) * sizeof(bp_t)))                  \
  __CPROVER_requires(NPB(p) <= PBCAP(p) && PBCAP(p) <= INT_MAX)                           \
  __CPROVER_requires(__CPROVER_is_fresh(PB(p), PBCAP(p) * sizeof(pb_e)))                  \
  __CPROVER_requires(g_arena_n <= INT_MAX)                                                \
  __CPROVER_requires(__CPROVER_is_fresh(g_arena, g_arena_n * sizeof(int)))                \
  __CPROVER_requires(IP(p) >= 0 && (unsigned long)IP(p) < N(p))                           \
  __CPROVER_requires(*(unsigned char *)&STEPPING(p) <= 1)                                 \
  __CPROVER_requires(g_c >= N(p) || (gc_op == OPC(p, g_c) && gc_p0 == PAR(p, g_c, 0) && gc_p1 == PAR(p, g_c, 1) && gc_p2 == PAR(p, g_c, 2))) \
  __CPROVER_requires(g_e >= NEN(p) || (ge_file == EN(p)[g_e].file._id && ge_line == EN(p)[g_e].line))
#endif
