/* Program::disassemble (VM/src/program.cpp) is an observer: it must not change the program, in particular not the
 * breakpoint tables (C08; std::map::operator[] inserts a default entry for an absent key).  BOUNDED stand-in: a program of
 * one instruction (the loop counter lives in a function with an explicit parameter), line_info of capacity 2. */
#define MODEL_GHOST_DEFINE
#include "mirror_vm.h"
#include "model_ghost_c.h"
#define INT_MAX 2147483647
typedef struct m_Program prog_t;
typedef struct m_map_int_BreakPoint_e li_e;
#ifdef SPEC_CHECKS_OFF
#pragma CPROVER check push
#pragma CPROVER check disable "pointer"
#pragma CPROVER check disable "bounds"
#endif
prog_t *g_prog;
unsigned long g_w;
#define IS_SITE_OP(o) ((o) == OP_POTENTIAL_BREAK || (o) == OP_BREAK)
void c_disassemble(void *prog, void *o)
__CPROVER_requires(prog == (void *)g_prog && g_prog->code._n == 1 && g_prog->line_info._n <= 2)
/* TBL instance: a breakpoint instruction is a key of line_info (witness g_w) */
__CPROVER_requires(g_w < SKIP && model_pick_map == g_w && model_pick2_map == NONE && model_pick3_map == NONE)
__CPROVER_requires(!IS_SITE_OP(g_prog->code._d[0].op) || (g_w < g_prog->line_info._n && g_prog->line_info._d[g_w].first == 0))
__CPROVER_assigns(MODEL_MAP_GHOSTS)
__CPROVER_ensures(g_prog->line_info._n == __CPROVER_old(g_prog->line_info._n)) /*@C08,C18*/;
#ifdef SPEC_CHECKS_OFF
#pragma CPROVER check pop
#endif
static prog_t the_prog;
static struct m_Instruction the_code[1];
static li_e the_li[2];
static char the_stream[8];
void w_disassemble(void *prog, void *o);
void h_disassemble(void)
{
  model_ghost_havoc();
  g_w = nondet_ulong();
  the_prog.code._d = the_code; the_prog.code._n = 1; the_prog.code._cap = 1;
  the_prog.line_info._d = the_li; the_prog.line_info._cap = 2; the_prog.line_info._n = nondet_ulong();
  g_prog = &the_prog;
  w_disassemble(&the_prog, the_stream);
  __CPROVER_assert(0, "canary: end of harness reachable (requires satisfiable)");
}
