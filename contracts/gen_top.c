/* Contract of Theo::gen (Compiler/src/gen.cpp): the shape of the result (C02: marked correct exactly when the error list is
 * empty) and of the program frame (C03: the root PREPARE is patched with the frame size and stack map of the root routine, the
 * program ends with HALT, jumps are resolved after all code exists).  gen_ast, popSymbols and backpatch are used through
 * contracts phrased over the local generator state `gs` (its address is recorded by an N12 hook). */
#include "gen_drv.c"
#ifdef SPEC_CHECKS_OFF
#pragma CPROVER check push
#pragma CPROVER check disable "pointer"
#pragma CPROVER check disable "bounds"
#pragma CPROVER check disable "signed-overflow"
#pragma CPROVER check disable "conversion"
#pragma CPROVER check disable "pointer-overflow"
#pragma CPROVER check disable "pointer-primitive"
#endif
struct m_CodegenResult *g_res;
unsigned long g_root_i;          /* where popSymbols entered the root routine into the program table */
int g_bk_calls;                  /* backpatch: number of calls, code size at the call */
unsigned long g_bk_gnc;
int g_ga_calls, g_ps_calls, g_ps_addr;
int g_root_ss, g_root_mi;
unsigned long g_ga_nreg;          /* registers of the root routine when generation of the tree ended */        /* frame size and stack map the root routine was entered with */
void __verif_gen_state(void *gs) { g_gs = gs; }
#define FA (g_gs->funcAddrs._d)
#define NFA (g_gs->funcAddrs._n)
#define NSM (g_gs->out.stack_maps._n)
#define VOK(v) ((v)._d != 0 && (v)._n <= (v)._cap && (v)._cap <= INT_MAX)
#define GS_SHAPE (VOK(g_gs->out.code) && VOK(g_gs->errors) && VOK(g_gs->symbols) && VOK(g_gs->labels) && VOK(g_gs->backpatching_todo) && \
                  VOK(g_gs->out.stack_maps) && VOK(g_gs->funcAddrs))
#define ASSIGNS_GEN_CALLEE                                                                \
  __CPROVER_assigns(g_gs->out.code._n, __CPROVER_object_whole(GCODE), g_gs->labels._n, __CPROVER_object_whole(LABS), \
                    g_gs->backpatching_todo._n, __CPROVER_object_whole(BPS), g_gs->errors._n, __CPROVER_object_whole(g_gs->errors._d), \
                    g_gs->symbols._n, __CPROVER_object_whole(g_gs->symbols._d), g_gs->funcAddrs._n, __CPROVER_object_whole(FA), \
                    g_gs->out.stack_maps._n, __CPROVER_object_whole(g_gs->out.stack_maps._d), g_gs->loops, g_gs->fs.name, g_gs->fs.line, \
                    g_gs->out.line_info, g_gs->out.potential_breaks, MODEL_MAP_GHOSTS)

/* gen_ast as seen by Theo::gen (c_gen_ast / c_dispatchVoid_top: code only grows and the PREPARE at position 0 is not a stop site,
 * so it is kept; the root symbol table stays open) */
void c_gen_ast_g(void *p)
__CPROVER_requires((void *)(p) == (void *)g_gs && GS_SHAPE && NSYM == 1 && GNC == 1)
ASSIGNS_GEN_CALLEE
__CPROVER_assigns(g_ga_calls, g_ga_nreg)
__CPROVER_ensures(GS_SHAPE && NSYM == 1 && GNC >= 1 && GNERR >= OLD(GNERR) && g_ga_calls == OLD(g_ga_calls) + 1)
__CPROVER_ensures(g_ga_nreg == g_gs->symbols._d[0].register_state._n && g_ga_nreg <= INT_MAX)
__CPROVER_ensures(GOP(0) == OLD(GOP(0)) && GPAR(0, 0) == OLD(GPAR(0, 0)) && GPAR(0, 1) == OLD(GPAR(0, 1)) && GPAR(0, 2) == OLD(GPAR(0, 2)))
/* the open routine keeps its name (the frame of c_gen_ast does not contain it) */
__CPROVER_ensures(g_gs->symbols._d[0].name._id == OLD(g_gs->symbols._d[0].name._id));

/* popSymbols (c_popSymbols, contracts/gen_sym.c): closes the open routine and enters it into the program table under its name,
 * with the given entry, its frame size and the index of its freshly appended stack map; no code */
void c_popSymbols_g(void *p, int addr)
__CPROVER_requires((void *)(p) == (void *)g_gs && GS_SHAPE && NSYM >= 1)
__CPROVER_assigns(g_gs->symbols._n, g_gs->errors._n, __CPROVER_object_whole(g_gs->errors._d), g_gs->funcAddrs._n, __CPROVER_object_whole(FA),
                  g_gs->out.stack_maps._n, __CPROVER_object_whole(g_gs->out.stack_maps._d), MODEL_MAP_GHOSTS, g_root_i, g_ps_calls, g_ps_addr, g_root_ss, g_root_mi)
__CPROVER_ensures(GS_SHAPE && NSYM == OLD(NSYM) - 1 && GNERR >= OLD(GNERR) && NSM == OLD(NSM) + 1 && g_ps_calls == OLD(g_ps_calls) + 1 && g_ps_addr == addr)
__CPROVER_ensures(g_root_i < NFA && FA[g_root_i].first._id == OLD(g_gs->symbols._d[NSYM - 1].name._id) && FA[g_root_i].second.ind == addr &&
                  FA[g_root_i].second.stack_size == (int)OLD(g_gs->symbols._d[NSYM - 1].register_state._n) &&
                  FA[g_root_i].second.stack_size >= 0 && FA[g_root_i].second.mi == (int)NSM - 1 && g_root_ss == FA[g_root_i].second.stack_size &&
                  g_root_mi == FA[g_root_i].second.mi)
/* witness for the lookup that follows in Theo::gen */
__CPROVER_ensures(model_pick_map == g_root_i);

/* backpatch (c_backpatch): the program keeps its size and its opcodes, only offsets of JMP / JMPC change */
void c_backpatch_g(void *p)
__CPROVER_requires((void *)(p) == (void *)g_gs && GS_SHAPE)
__CPROVER_assigns(__CPROVER_object_whole(GCODE), g_gs->backpatching_todo._n, g_gs->errors._n, __CPROVER_object_whole(g_gs->errors._d), g_bk_calls, g_bk_gnc)
__CPROVER_ensures(GS_SHAPE && GNC == OLD(GNC) && GNERR >= OLD(GNERR) && g_bk_calls == OLD(g_bk_calls) + 1 && g_bk_gnc == GNC)
__CPROVER_ensures(g_c >= GNC || (GOP(g_c) == OLD(GOP(g_c)) && ((GOP(g_c) == OP_JMP || GOP(g_c) == OP_JMPC) ||
                  (GPAR(g_c, 0) == OLD(GPAR(g_c, 0)) && GPAR(g_c, 1) == OLD(GPAR(g_c, 1)) && GPAR(g_c, 2) == OLD(GPAR(g_c, 2))))));

#define R_NC (g_res->code.code._n)
#define R_CODE (g_res->code.code._d)
void c_gen(void *in, void *out)
__CPROVER_requires((void *)(out) == (void *)g_res && g_ga_calls == 0 && g_ps_calls == 0 && g_bk_calls == 0)
__CPROVER_assigns(g_gs, __CPROVER_object_whole(g_res), MODEL_MAP_GHOSTS, g_root_i, g_bk_calls, g_bk_gnc, g_ga_calls, g_ps_calls, g_ps_addr, g_root_ss, g_root_mi, g_ga_nreg)
/* C02: the result is marked correct exactly when it carries no error - never both, never neither */
__CPROVER_ensures(g_res->generated_correctly == (g_res->errors._n == 0)) /*@C02,C04*/
/* C03: position 0 is the PREPARE of the root routine, patched with the frame size and stack map the root routine was entered
 * into the program table with (entry 0); the program ends with HALT */
/* (positions are named through the arbitrary index g_c, at which the backpatch contract is instantiated) */
__CPROVER_ensures(R_NC >= 2 && (g_c != 0 || (R_CODE[g_c].op == OP_PREPARE_EXEC && R_CODE[g_c].parameters[PI_prepare_count] >= 0 &&
                  R_CODE[g_c].parameters[PI_prepare_index] >= 0 && (unsigned long)R_CODE[g_c].parameters[PI_prepare_index] < g_res->code.stack_maps._n &&
                  R_CODE[g_c].parameters[PI_prepare_target] == 0 && R_CODE[g_c].parameters[PI_prepare_count] == g_root_ss &&
                  R_CODE[g_c].parameters[PI_prepare_index] == g_root_mi))) /*@C03,C19*/
/* the root frame is as large as the register table of the root routine was when generation ended: every register the root code
 * addresses (all allocated during generation) lies inside the frame */
__CPROVER_ensures(g_root_ss == (int)g_ga_nreg) /*@C03*/
__CPROVER_ensures(g_c + 1 != R_NC || R_CODE[g_c].op == OP_HALT) /*@C03,C01,C17*/
/* the tree is generated once, the root routine is closed once with entry 0, and jumps are resolved once, after ALL code
 * (including the final HALT) exists */
__CPROVER_ensures(g_ga_calls == 1 && g_ps_calls == 1 && g_ps_addr == 0 && g_bk_calls == 1 && g_bk_gnc == R_NC) /*@C03,C01,C16*/;
#ifdef SPEC_CHECKS_OFF
#pragma CPROVER check pop
#endif

static struct m_AST the_ast;
static struct m_CodegenResult the_res;
void w_gen(void *in, void *out);
void h_gen(void)
{
  model_ghost_havoc();
  g_res = &the_res; g_c = nondet_ulong();
  g_ga_calls = 0; g_ps_calls = 0; g_bk_calls = 0;
  w_gen(&the_ast, &the_res);
  CANARY;
}
