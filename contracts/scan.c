/* Contracts of the include-resolving scanner driver, Compiler/src/scan.cpp (C15: recursion check against the active scanner
 * stack, reports of absent files; C02: synthesis of the final EOF token).  mirror_scan.h / lit_ids_scan.h are GENERATED.
 * The flex scanner is outside the unit: yylex is a trusted contract (any token, any return value), the yy* API are stubs. */
#include "mirror_scan.h"
#include "lit_ids_scan.h"
#define MODEL_GHOST_DEFINE
#include "model_ghost_c.h"
#define INT_MAX 2147483647
typedef struct m_Scanner scn_t;
typedef struct m_Token tok_t;
typedef struct m_ParseError perr_t;
typedef struct m_ScanResult res_t;
typedef struct m_map_string_string fmap_t;
#include "scan_macros.h"

/* ---- trusted: the generated scanner -------------------------------------------------------------------------------- */
/* any token, any return value; the ghost automaton g_yy_* classifies the calls the way the directive syntax does: a call in
 * state 0 delivers an ordinary token (UNKNOWN tokens are counted; INCLUDE moves to state 1), a call in state 1 fills the
 * file-name slot of the include directive (anything but a quoted name - including the end of the file - is counted) */
#define YT(ret) (((tok_t *)(ret))->t)
int c_yylex(void *ret, void *s)
__CPROVER_requires(1)
__CPROVER_assigns(__CPROVER_object_whole(ret), g_yy_inc, g_yy_unknown, g_yy_expected)
__CPROVER_ensures(g_yy_unknown == OLD(g_yy_unknown) + ((!OLD(g_yy_inc) && __CPROVER_return_value != 0 && YT(ret) == TK_UNKNOWN) ? 1 : 0))
__CPROVER_ensures(g_yy_expected == OLD(g_yy_expected) + ((OLD(g_yy_inc) && (__CPROVER_return_value == 0 || YT(ret) != TK_FNAME)) ? 1 : 0))
__CPROVER_ensures(g_yy_inc == (!OLD(g_yy_inc) && __CPROVER_return_value != 0 && YT(ret) == TK_INCLUDE));

void *nondet_ptr(void);
void *nondet_model_ptr(void);
int nondet_int(void);
long nondet_long(void);
int yylex_init(void **s) { *s = nondet_ptr(); return 0; }
void *yy_scan_string(const char *str, void *s) { return nondet_ptr(); }
void yyset_lineno(int l, void *s) {}
void yyset_extra(void *e, void *s) {}
void yy_delete_buffer(void *b, void *s) {}
int yylex_destroy(void *s) { return 0; }
/* N12 hook: addresses of the driver loop's local state */
void __verif_scan_state(void *lex_stack, void *errors, void *res) { g_ls = lex_stack; g_er = errors; g_rs = res; }
/* N12 hook: reports per kind */
void __verif_scan_err(int kind)
{
  if (kind == PE_EXPECTED_FILENAME) g_cnt_expected = g_cnt_expected + 1;
  if (kind == PE_UNKNOWN_TOKEN) g_cnt_unknown = g_cnt_unknown + 1;
}

#ifdef SPEC_CHECKS_OFF
#pragma CPROVER check push
#pragma CPROVER check disable "pointer"
#pragma CPROVER check disable "bounds"
#pragma CPROVER check disable "signed-overflow"
#pragma CPROVER check disable "conversion"
#pragma CPROVER check disable "pointer-overflow"
#pragma CPROVER check disable "pointer-primitive"
#endif
/* ---- exists_scanner: true exactly if some scanner of the stack reads the file ------------------------------------------ */
#define EXISTS_ENSURES(SS)                                                                                                  \
  /* completeness, for the arbitrary stack position g_a: a scanner on that file anywhere in the stack is found */          \
  __CPROVER_ensures(!(g_a < (SS)->_n && (SS)->_d[g_a].f._id == key) || __CPROVER_return_value) /*@C15,C02*/                    \
  /* exact answer for stacks of depth <= 3 (the general "true only if some position holds the file" needs an existential) */ \
  __CPROVER_ensures((SS)->_n > 3 || __CPROVER_return_value == (((SS)->_n > 0 && (SS)->_d[0].f._id == key) ||                  \
                    ((SS)->_n > 1 && (SS)->_d[1].f._id == key) || ((SS)->_n > 2 && (SS)->_d[2].f._id == key))) /*@C15*/
_Bool c_exists_scanner(void *ss, long key)
__CPROVER_requires((void *)ss == (void *)g_ss && key == g_key)
__CPROVER_requires(g_ss->_n <= g_ss->_cap && g_ss->_cap <= INT_MAX && (g_ss->_n == 0 || g_ss->_d != 0))
__CPROVER_assigns()
EXISTS_ENSURES(g_ss);
/* the same contract as seen by Theo::scan (the stack is its local lex_stack) */
_Bool c_exists_scanner_callee(void *ss, long key)
__CPROVER_requires((void *)ss == (void *)g_ls)
__CPROVER_requires(g_ls->_n <= g_ls->_cap && g_ls->_cap <= INT_MAX && (g_ls->_n == 0 || g_ls->_d != 0))
__CPROVER_assigns()
EXISTS_ENSURES(g_ls);

/* ---- Theo::scan ---------------------------------------------------------------------------------------------------------- */
void c_scan(void *files, long main_id, void *out)
__CPROVER_requires((void *)files == (void *)g_fl && (void *)out == (void *)g_out && main_id == g_main)
__CPROVER_requires(FL_N <= g_fl->_cap && g_fl->_cap <= INT_MAX)
__CPROVER_requires(g_yy_inc == 0 && g_yy_unknown == 0 && g_yy_expected == 0 && g_cnt_unknown == 0 && g_cnt_expected == 0)
__CPROVER_assigns(g_ls, g_er, g_rs, MODEL_MAP_GHOSTS, __CPROVER_object_whole(g_out), g_yy_inc, g_yy_unknown, g_yy_expected, g_cnt_unknown, g_cnt_expected)
/* C02: the token stream ends with exactly one synthesised EOF token, located where the last scanned token stands ... */
__CPROVER_ensures(OUT_NT >= 1 && OUT_T[OUT_NT - 1].t == TK_T_EOF) /*@C02*/
__CPROVER_ensures(OUT_NT < 2 || (OUT_T[OUT_NT - 1].file._id == OUT_T[OUT_NT - 2].file._id && OUT_T[OUT_NT - 1].line == OUT_T[OUT_NT - 2].line)) /*@C02*/
/* ... or, when nothing was scanned, on line 1 of the main file / at the '-' placeholder */
__CPROVER_ensures(OUT_NT != 1 || (OUT_T[0].file._id == g_main && OUT_T[0].line == 1) || (OUT_T[0].file._id == LIT__ && OUT_T[0].line == -1)) /*@C02*/
/* C15/C02: every scanner error (arbitrary index g_e) is of a scanner kind; an absent main file is reported at the placeholder
 * and requests the main file; an absent include requests a name that is not a key of the file map (at the ghost index the
 * map model exposes); no other error carries a request */
__CPROVER_ensures(g_e >= OUT_NE || ERR_SHAPE(OUT_E[g_e])) /*@C15,C02*/
/* C15: every include directive whose file-name slot is not a quoted name (also: cut off by the end of the file), and every
 * unknown token outside such a slot, is reported exactly once */
__CPROVER_ensures(g_cnt_expected == g_yy_expected && g_cnt_unknown == g_yy_unknown) /*@C15,C02*/
/* reachability of the cases (each must FAIL) */
__CPROVER_ensures(OUT_NT != 1) /*@CANARY*/
__CPROVER_ensures(OUT_NT < 2) /*@CANARY*/
__CPROVER_ensures(OUT_NE == 0) /*@CANARY*/
__CPROVER_ensures(g_cnt_expected == 0) /*@CANARY*/
__CPROVER_ensures(g_cnt_unknown == 0) /*@CANARY*/
__CPROVER_ensures(g_e >= OUT_NE || OUT_E[g_e].t != PE_FILE_NOT_FOUND) /*@CANARY*/
__CPROVER_ensures(g_e >= OUT_NE || OUT_E[g_e].t != PE_RECURSIVE_INCLUDE) /*@CANARY*/
__CPROVER_ensures(g_e >= OUT_NE || OUT_E[g_e].t != PE_MAIN_FILE_NOT_FOUND) /*@CANARY*/;
#ifdef SPEC_CHECKS_OFF
#pragma CPROVER check pop
#endif

unsigned long nondet_ulong(void);
void *malloc(unsigned long);
static void *mk(unsigned long n, unsigned long sz) { void *r = malloc(n * sz); __CPROVER_assume(r != 0); return r; }
#define CANARY __CPROVER_assert(0, "canary: end of harness reachable (requires satisfiable)")
_Bool w_exists_scanner(void *ss, long key);
void w_scan(void *files, long main_id, void *out);
static struct m_vec_Scanner the_ss;
static fmap_t the_fl;
static res_t the_out;

void h_exists_scanner(void)
{
  unsigned long cap = nondet_ulong();
  __CPROVER_assume(cap <= INT_MAX);
  the_ss._d = mk(cap, sizeof(scn_t)); the_ss._cap = cap; the_ss._n = nondet_ulong();
  g_ss = &the_ss; g_key = nondet_long(); g_a = nondet_ulong();
  __CPROVER_assume(the_ss._n <= cap);
  w_exists_scanner(&the_ss, g_key);
  CANARY;
}

void h_scan(void)
{
  unsigned long cap = nondet_ulong();
  __CPROVER_assume(cap <= INT_MAX);
  model_ghost_havoc();
  the_fl._d = mk(cap, sizeof(*the_fl._d)); the_fl._cap = cap; the_fl._n = nondet_ulong();
  g_fl = &the_fl; g_out = &the_out; g_main = nondet_long(); g_e = nondet_ulong(); g_a = nondet_ulong(); g_b = nondet_ulong();
  g_yy_inc = 0; g_yy_unknown = 0; g_yy_expected = 0; g_cnt_unknown = 0; g_cnt_expected = 0;
  w_scan(&the_fl, g_main, &the_out);
  CANARY;
}
