/* Lowering side of the code generator (C01 half (b): emission schemas; C03: registers/frames/arity; C16: loop counter,
 * program table; C04: static rules).  Functions: FunctionGenState::fetchTemporary / fetchVariableRegister, dispatchLoop,
 * dispatchWhile, dispatchIf, dispatchGoto, dispatchMark, dispatchAssign, dispatchArgs.
 * The recursive traversal functions are used through contracts at call sites (MONO below: what every dispatch function
 * guarantees about the generator state), so each schema is proved function by function.
 * The pre-state is built by the harness (assigned ghost handles; see contracts/parse.c for why). */
#define MODEL_GHOST_DEFINE
#define HAVE_BP_HOOK
#include "gen_common.h"
#ifdef SPEC_CHECKS_OFF
#pragma CPROVER check push
#pragma CPROVER check disable "pointer"
#pragma CPROVER check disable "bounds"
#pragma CPROVER check disable "signed-overflow"
#pragma CPROVER check disable "conversion"
#pragma CPROVER check disable "pointer-overflow"
#pragma CPROVER check disable "pointer-primitive"
#endif
gs_t *g_gs;
unsigned long g_c, g_l, g_w, g_o, g_s, go_n;
int gc_op, gc_p0, gc_p1, gc_p2, gl_key, gl_line, go_line, gs_val;
long gl_file, go_file;
int *go_d;

fgs_t *g_top;            /* symbol table of the routine being generated: symbols.back() */
unsigned long g_r, g_lab, g_bp; /* ghost register / label / pending-jump indices */
int gr_temp, gr_use;     /* snapshot of register g_r */
long gr_name;
#include "gen_disp_macros.h"

/* ------------------------------------------------------------------ registers (C03) */
int c_fetchTemporary(void *p)
REQ_GS(p)
__CPROVER_assigns(g_top->register_state._n, __CPROVER_object_whole(REGS))
/* a register of the current frame, marked temporary and in use */
__CPROVER_ensures(__CPROVER_return_value >= 0 && (unsigned long)__CPROVER_return_value < NREG && REGS[__CPROVER_return_value].is_temp &&
                  REGS[__CPROVER_return_value].in_use) /*@C03*/
/* the frame only grows, by at most this register; a free temporary is reused only if it WAS free */
__CPROVER_ensures(NREG == OLD(NREG) + ((unsigned long)__CPROVER_return_value == OLD(NREG) ? 1 : 0) && NREG <= RCAP) /*@C03*/
__CPROVER_ensures(g_r >= OLD(NREG) || g_r == (unsigned long)__CPROVER_return_value ||
                  (REGS[g_r].is_temp == gr_temp && REGS[g_r].in_use == gr_use && REGS[g_r].name._id == gr_name)) /*@C03,C01*/
__CPROVER_ensures((unsigned long)__CPROVER_return_value >= OLD(NREG) || g_r != (unsigned long)__CPROVER_return_value ||
                  (gr_temp && !gr_use && REGS[g_r].name._id == gr_name)) /*@C03,C01*/;

int c_fetchVariableRegister(void *p, long name_id)
REQ_GS(p)
__CPROVER_assigns(g_top->register_state._n, __CPROVER_object_whole(REGS))
/* a register of the current frame that carries this name */
__CPROVER_ensures(__CPROVER_return_value >= 0 && (unsigned long)__CPROVER_return_value < NREG &&
                  REGS[__CPROVER_return_value].name._id == name_id) /*@C03,C01*/
__CPROVER_ensures(NREG == OLD(NREG) + ((unsigned long)__CPROVER_return_value == OLD(NREG) ? 1 : 0) && NREG <= RCAP) /*@C03*/
/* existing registers are untouched; a new one is a named (non temporary) register */
__CPROVER_ensures(g_r >= OLD(NREG) || (REGS[g_r].is_temp == gr_temp && REGS[g_r].in_use == gr_use && REGS[g_r].name._id == gr_name)) /*@C03,C01*/
__CPROVER_ensures((unsigned long)__CPROVER_return_value < OLD(NREG) || (!REGS[__CPROVER_return_value].is_temp && REGS[__CPROVER_return_value].in_use)) /*@C03,C07*/
/* first mention allocates: a new register is made only if no existing register (ghost) has the name */
__CPROVER_ensures((unsigned long)__CPROVER_return_value < OLD(NREG) || g_r >= OLD(NREG) || gr_name != name_id) /*@C03,C01*/;

/* ------------------------------------------------------------------ traversal functions as callees: MONO only */
#define CN(c) ((node_t *)(c))
extern long g_num_id, g_num_val;
void c_dispatchValue(void *p, void *c, int tgt)
REQ_GS(p)
REQ_GC
/* a value never touches labels, pending jumps or the mark table (proved for the function itself: c_dispatchValue_top) */
__CPROVER_assigns(g_gs->out.code._n, __CPROVER_object_whole(GCODE), g_gs->errors._n, __CPROVER_object_whole(g_gs->errors._d),
                  g_top->register_state._n, __CPROVER_object_whole(REGS))
ENS_MONO
/* an integer literal that does not fit the word is reported (proved for the function itself: c_dispatchValue_top) */
__CPROVER_ensures((c) == 0 || CN(c)->t != NT_NUMBER || CN(c)->tok._id != g_num_id || g_num_val < INT_MAX || GNERR > OLD(GNERR)) /*@C20,C04*/;

/* (proved for the function itself: c_dispatchVoid_top in contracts/gen_drv.c) */
void c_dispatchVoid(void *p, void *c)
REQ_GS(p)
REQ_GC
ASSIGNS_GS_CALLEE
ENS_MONO_V;

/* the same, as the BODY of a LOOP / WHILE: the call records what the construct had set up when its body begins (value of the
 * construct's first label, code size) in ghosts, so that the construct's contract can speak about that intermediate state */
int g_rec_calls, g_rec_l2;
unsigned long g_rec_gnc;
void c_dispatchVoid_rec(void *p, void *c)
REQ_GS(p)
__CPROVER_requires(NLAB >= 2)
__CPROVER_assigns(g_gs->out.code._n, __CPROVER_object_whole(GCODE), g_gs->labels._n, __CPROVER_object_whole(LABS),
                  g_gs->backpatching_todo._n, __CPROVER_object_whole(BPS), g_gs->errors._n, __CPROVER_object_whole(g_gs->errors._d),
                  g_top->register_state._n, __CPROVER_object_whole(REGS), g_top->marks._n, __CPROVER_object_whole(MARKS), g_gs->loops,
                  g_rec_calls, g_rec_l2, g_rec_gnc)
ENS_MONO_V
__CPROVER_ensures(g_rec_calls == OLD(g_rec_calls) + 1 && g_rec_l2 == OLD(LABS[NLAB - 2]) && g_rec_gnc == OLD(GNC));

/* ------------------------------------------------------------------ dispatchLoop: LOOP x DO body END
 *   ctr := value(x) ; L_start: JMPC L_end, ctr ; body ; ADD ctr, ctr, -1 ; JMP L_start ; L_end:                      */
void c_dispatchLoop(void *p, void *c)
REQ_GS(p)
REQ_GC
__CPROVER_requires(NODE_OK(c) && g_rec_calls == 0)
__CPROVER_requires(LOOPS < INT_MAX)
ASSIGNS_GS
__CPROVER_assigns(g_rec_calls, g_rec_l2, g_rec_gnc)
ENS_MONO
/* C16: every loop gets its own counter name (the loop number advances) */
__CPROVER_ensures(LOOPS > OLD(LOOPS)) /*@C16,C01*/
/* two labels of its own, at least two pending jumps and three instructions */
__CPROVER_ensures(NLAB >= OLD(NLAB) + 2 && NBP >= OLD(NBP) + 2 && GNC >= OLD(GNC) + 3) /*@C01,C03*/
/* the loop ends with: decrement of the private counter, jump back to the loop head (label operand, patched later) */
__CPROVER_ensures(GOP(GNC - 2) == OP_ADD_CONST && GPAR(GNC - 2, PI_add_target) == GPAR(GNC - 2, PI_add_source) &&
                  GPAR(GNC - 2, PI_add_constant) == -1 && GOP(GNC - 1) == OP_JMP && BPS[NBP - 1] == (int)GNC - 1) /*@C01,C16*/
/* the counter is a register of the frame, the jump operand is a label of this loop whose position is the loop head:
 * a JMPC on the same counter to the other label of this loop, and that label is the end of the loop */
__CPROVER_ensures(GPAR(GNC - 2, PI_add_target) >= 0 && (unsigned long)GPAR(GNC - 2, PI_add_target) < NREG) /*@C03*/
__CPROVER_ensures(GPAR(GNC - 1, PI_jmp_offset) >= 0 && (unsigned long)GPAR(GNC - 1, PI_jmp_offset) + 1 < NLAB) /*@C03,C01*/
/* when the body begins, the label the back edge names is set to the loop head: the JMPC on the counter emitted just before the
 * body (so every iteration re-tests the counter, and the stop site of the header - emitted before the construct - is not
 * revisited); the loop's other label is set to the end of the construct */
__CPROVER_ensures(g_rec_calls == 1 && g_rec_gnc >= 1 && g_rec_l2 == (int)g_rec_gnc - 1) /*@C01,C16,C07*/
/* (the instruction before the body, named through the arbitrary position g_c that the callee contracts preserve) */
__CPROVER_ensures(g_c + 1 != g_rec_gnc || (GOP(g_c) == OP_JMPC && GPAR(g_c, PI_jmpc_source) == GPAR(GNC - 2, PI_add_target) &&
                  GPAR(g_c, PI_jmpc_offset) == GPAR(GNC - 1, PI_jmp_offset) + 1)) /*@C01,C16*/
__CPROVER_ensures(LABS[GPAR(GNC - 1, PI_jmp_offset) + 1] == (int)GNC) /*@C01,C16*/;

/* ------------------------------------------------------------------ dispatchWhile: WHILE x != 0 DO body END
 *   L_start: cond := value(x) ; JMPC L_end, cond ; body ; JMP L_start ; L_end:                                       */
void c_dispatchWhile(void *p, void *c)
REQ_GS(p)
__CPROVER_requires(NODE_OK(c) && g_rec_calls == 0)
ASSIGNS_GS
__CPROVER_assigns(g_rec_calls, g_rec_l2, g_rec_gnc)
ENS_MONO
__CPROVER_ensures(NLAB >= OLD(NLAB) + 2 && NBP >= OLD(NBP) + 2 && GNC >= OLD(GNC) + 2) /*@C01,C03*/
/* the construct ends with the jump back to ITS OWN start label (the first label it created), recorded for backpatching */
__CPROVER_ensures(GOP(GNC - 1) == OP_JMP && GPAR(GNC - 1, PI_jmp_offset) == (int)OLD(NLAB) && BPS[NBP - 1] == (int)GNC - 1) /*@C01*/
/* when the body begins, the start label is set to the first instruction of the condition code, i.e. the code position at which
 * the construct began: AFTER the stop site of the WHILE header, which is therefore visited once per entry, not per iteration
 * (C07); the exit test JMPC precedes the body and names the construct's second label, which is set to the end of the construct */
__CPROVER_ensures(g_rec_calls == 1 && g_rec_l2 == (int)OLD(GNC)) /*@C01,C07*/
__CPROVER_ensures(g_rec_gnc >= 1 && (g_c + 1 != g_rec_gnc || (GOP(g_c) == OP_JMPC && GPAR(g_c, PI_jmpc_offset) == (int)OLD(NLAB) + 1))) /*@C01*/
__CPROVER_ensures(LABS[OLD(NLAB) + 1] == (int)GNC) /*@C01*/;

/* ------------------------------------------------------------------ dispatchGoto / dispatchMark: per-routine mark table */
#define REQ_MARK_PICKS                                                                    \
  __CPROVER_requires(g_w < SKIP && model_pick_map == g_w && model_pick2_map == g_w && model_pick3_map == g_w) \
  /* C03: every mark of the routine refers to an existing label (instantiated at the entry a lookup may find) */ \
  __CPROVER_requires(g_w >= NMARK || (MARKS[g_w].second >= 0 && (unsigned long)MARKS[g_w].second < NLAB))
#define NAME_OF(c) (((node_t *)(((node_t *)(c))->left))->tok._id)
void c_dispatchGoto(void *p, void *c)
REQ_GS(p)
__CPROVER_requires(NODE_OK(c) && NODE_OK(((node_t *)(c))->left))
REQ_MARK_PICKS
ASSIGNS_GS
ENS_MONO
/* exactly one JMP whose operand is the label of the named mark (created on first mention), pending for backpatching */
__CPROVER_ensures(GNC == OLD(GNC) + 1 && GOP(GNC - 1) == OP_JMP && NBP == OLD(NBP) + 1 && BPS[NBP - 1] == (int)GNC - 1) /*@C01,C03*/
__CPROVER_ensures(model_last_map < NMARK && MARKS[model_last_map].first._id == NAME_OF(c) &&
                  MARKS[model_last_map].second == GPAR(GNC - 1, PI_jmp_offset) && GPAR(GNC - 1, PI_jmp_offset) >= 0 &&
                  (unsigned long)GPAR(GNC - 1, PI_jmp_offset) < NLAB) /*@C01,C03*/
__CPROVER_ensures(NLAB <= OLD(NLAB) + 1 && NMARK <= OLD(NMARK) + 1 && (NLAB == OLD(NLAB)) == (NMARK == OLD(NMARK))) /*@C01,C04*/;

void c_dispatchMark(void *p, void *c)
REQ_GS(p)
__CPROVER_requires(NODE_OK(c) && NODE_OK(((node_t *)(c))->left))
REQ_MARK_PICKS
__CPROVER_requires(GNC >= 1)
ASSIGNS_GS
ENS_MONO
/* no code; the label of the named mark is set to the site of its line when one was just emitted, else to the next
 * instruction (C07: a jump to a label stops on the label's line) */
__CPROVER_ensures(GNC == OLD(GNC) && NBP == OLD(NBP)) /*@C01*/
__CPROVER_ensures(model_last_map < NMARK && MARKS[model_last_map].first._id == NAME_OF(c) && MARKS[model_last_map].second >= 0 &&
                  (unsigned long)MARKS[model_last_map].second < NLAB &&
                  LABS[MARKS[model_last_map].second] == (GOP(GNC - 1) == OP_POTENTIAL_BREAK ? (int)GNC - 1 : (int)GNC)) /*@C01,C07,C03*/;

/* ------------------------------------------------------------------ dispatchIf: IF x = c THEN GOTO label
 *   op1 := value(x) ; op2 := value(c) ; TEST cond, op1, op2 ; JMPC label, cond                                        */
void c_dispatchIf(void *p, void *c)
REQ_GS(p)
__CPROVER_requires(NODE_OK(c) && NODE_OK(((node_t *)(c))->left) && NODE_OK(((node_t *)(c))->right) && NODE_OK(((node_t *)(((node_t *)(c))->right))->left))
REQ_MARK_PICKS
ASSIGNS_GS
ENS_MONO
/* ends with the equality test on three registers of the frame and the conditional jump on the test result to the label
 * of the named mark (pending for backpatching) */
__CPROVER_ensures(GNC >= OLD(GNC) + 2 && GOP(GNC - 2) == OP_TEST && GOP(GNC - 1) == OP_JMPC &&
                  GPAR(GNC - 1, PI_jmpc_source) == GPAR(GNC - 2, PI_test_target) && NBP >= OLD(NBP) + 1 && BPS[NBP - 1] == (int)GNC - 1) /*@C01,C03*/
__CPROVER_ensures(GPAR(GNC - 2, PI_test_target) >= 0 && (unsigned long)GPAR(GNC - 2, PI_test_target) < NREG &&
                  GPAR(GNC - 2, PI_test_op1) >= 0 && (unsigned long)GPAR(GNC - 2, PI_test_op1) < NREG &&
                  GPAR(GNC - 2, PI_test_op2) >= 0 && (unsigned long)GPAR(GNC - 2, PI_test_op2) < NREG) /*@C03*/
__CPROVER_ensures(model_last_map < NMARK && MARKS[model_last_map].first._id == ((node_t *)(((node_t *)(((node_t *)(c))->right))->left))->tok._id &&
                  MARKS[model_last_map].second == GPAR(GNC - 1, PI_jmpc_offset) && GPAR(GNC - 1, PI_jmpc_offset) >= 0 &&
                  (unsigned long)GPAR(GNC - 1, PI_jmpc_offset) < NLAB) /*@C01,C03*/;

/* ------------------------------------------------------------------ dispatchAssign / dispatchArgs */
/* callees of dispatchAssign with a record of their call (which variable, which register; which expression into which target) */
int g_fv_calls, g_fv_ret, g_fv_seq, g_va_calls, g_va_tgt, g_va_seq, g_as_seq;
long g_fv_name;
void *g_va_node;
int c_fetchVariableRegister_rec(void *p, long name_id)
REQ_GS(p)
__CPROVER_assigns(g_top->register_state._n, __CPROVER_object_whole(REGS), g_fv_calls, g_fv_ret, g_fv_seq, g_fv_name, g_as_seq)
__CPROVER_ensures(__CPROVER_return_value >= 0 && (unsigned long)__CPROVER_return_value < NREG && REGS[__CPROVER_return_value].name._id == name_id)
__CPROVER_ensures(NREG >= OLD(NREG) && NREG <= RCAP)
__CPROVER_ensures(g_fv_calls == OLD(g_fv_calls) + 1 && g_fv_ret == __CPROVER_return_value && g_fv_name == name_id && g_as_seq == OLD(g_as_seq) + 1 &&
                  g_fv_seq == g_as_seq);
void c_dispatchValue_rec2(void *p, void *c, int tgt)
REQ_GS(p)
__CPROVER_assigns(g_gs->out.code._n, __CPROVER_object_whole(GCODE), g_gs->errors._n, __CPROVER_object_whole(g_gs->errors._d),
                  g_top->register_state._n, __CPROVER_object_whole(REGS), g_va_calls, g_va_tgt, g_va_seq, g_va_node, g_as_seq)
ENS_MONO
__CPROVER_ensures(g_va_calls == OLD(g_va_calls) + 1 && g_va_node == c && g_va_tgt == tgt && g_as_seq == OLD(g_as_seq) + 1 && g_va_seq == g_as_seq);

/* x := e  generates exactly: the value of e into the register of x (allocated on first mention) - whatever e is, every time */
void c_dispatchAssign(void *p, void *c)
REQ_GS(p)
__CPROVER_requires(NODE_OK(c) && NODE_OK(((node_t *)(c))->left))
__CPROVER_requires(g_fv_calls == 0 && g_va_calls == 0 && g_as_seq == 0)
ASSIGNS_GS
__CPROVER_assigns(g_fv_calls, g_fv_ret, g_fv_seq, g_fv_name, g_va_calls, g_va_tgt, g_va_seq, g_va_node, g_as_seq)
ENS_MONO
__CPROVER_ensures(g_fv_calls == 1 && g_fv_name == ((node_t *)(((node_t *)(c))->left))->tok._id && g_fv_seq == 1) /*@C01,C03*/
__CPROVER_ensures(g_va_calls == 1 && g_va_node == ((node_t *)(c))->right && g_va_tgt == g_fv_ret && g_va_seq == 2) /*@C01*/;

#define ARGNUM (g_top->argnum)
/* the parameter list is a tree of SPLIT nodes over NAME leaves.  The function under contract needs its own node and
 * (to call itself on them) its children to be valid; as a callee the same contract is used with the node alone - validity
 * of the nodes below is the structural invariant of the AST (every node is made by AST::mk, children are results of the
 * parser functions: contracts/parse.c), instantiated at use (DESIGN.md 3.3) */
#define ARGS_CONTRACT(NAME, CHILDREN)                                                     \
void NAME(void *p, void *c)                                                               \
REQ_GS(p)                                                                                 \
__CPROVER_requires((c) == 0 || NODE_OK(c))                                                \
CHILDREN                                                                                  \
/* sizes fit the generator's int counters (T3) */                                         \
__CPROVER_requires(ARGNUM >= 0 && (unsigned long)ARGNUM <= NREG + GNERR && RCAP + g_gs->errors._cap <= INT_MAX - 2) \
ASSIGNS_GS                                                                                \
__CPROVER_assigns(g_top->argnum)                                                          \
ENS_MONO                                                                                  \
/* C03: without an error every parameter gets a register of its own (argument count and frame grow together), so \
 * parameter k lives in register k and argnum never exceeds the frame size; a repeated name is an error */ \
__CPROVER_ensures(ARGNUM >= OLD(ARGNUM) && (unsigned long)ARGNUM <= NREG + GNERR) /*@C03*/ \
__CPROVER_ensures(GNERR != OLD(GNERR) || (unsigned long)(ARGNUM - OLD(ARGNUM)) == NREG - OLD(NREG)) /*@C03*/ \
__CPROVER_ensures(GNC == OLD(GNC) && NLAB == OLD(NLAB)) /*@C01*/;
#define ARGS_CHILDREN                                                                     \
__CPROVER_requires((c) == 0 || ((node_t *)(c))->t != NT_SPLIT || ((node_t *)(c))->left == 0 || NODE_OK(((node_t *)(c))->left)) \
__CPROVER_requires((c) == 0 || ((node_t *)(c))->t != NT_SPLIT || ((node_t *)(c))->right == 0 || NODE_OK(((node_t *)(c))->right))
ARGS_CONTRACT(c_dispatchArgs, ARGS_CHILDREN)
ARGS_CONTRACT(c_dispatchArgs_callee, )

/* ------------------------------------------------------------------ dispatchValue: id | int | RUN f WITH args END
 * Light callee contracts (weakenings of the contracts enforced elsewhere, without their memory-shape preconditions). */
void c_advanceLine_callee(void *p, int line, long file_id)
REQ_GS(p)
__CPROVER_assigns(g_gs->out.code._n, __CPROVER_object_whole(GCODE), g_gs->fs.name, g_gs->fs.line)
ENS_MONO
/* at most one instruction, a breakpoint site (contracts/gen_tbl.c: c_advanceLine) */
__CPROVER_ensures(GNC <= OLD(GNC) + 1 && (GNC == OLD(GNC) || GOP(GNC - 1) == OP_POTENTIAL_BREAK) && NLAB == OLD(NLAB) && NBP == OLD(NBP) &&
                  GNERR == OLD(GNERR) && NREG == OLD(NREG));
extern long g_num_id, g_num_val; /* T5: value of the digit string with this identity (contracts/gen_misc.c) */
int c_strToInt_callee(void *p, void *c)
REQ_GS(p)
__CPROVER_assigns(g_gs->errors._n, __CPROVER_object_whole(g_gs->errors._d))
ENS_MONO
__CPROVER_ensures(GNC == OLD(GNC) && NLAB == OLD(NLAB) && NBP == OLD(NBP) && NREG == OLD(NREG) && GNERR <= OLD(GNERR) + 1)
/* c_strToInt: a literal that does not fit the word is reported */
__CPROVER_ensures((c) == 0 || CN(c)->tok._id != g_num_id || g_num_val < INT_MAX || GNERR == OLD(GNERR) + 1);
/* contracts/gen_misc.c: c_strToIntSilent - the value of a digit string, clamped into [0, INT_MAX] */
int c_strToIntSilent_callee(void *c)
__CPROVER_requires(1)
__CPROVER_assigns()
__CPROVER_ensures(__CPROVER_return_value >= 0);

#define FA (g_gs->funcAddrs._d)
#define NFA (g_gs->funcAddrs._n)
#define ERRT(i) (g_gs->errors._d[i].t)
#define IS_BUILTIN(id) ((id) == LIT___INC__ || (id) == LIT___DEC__)
/* ghosts describing the (harness built) call node: number of arguments, name of the callee */
extern int g_argc, g_k2, n_a1_t, n_a2_t;
extern long n_a2_tok;
extern long g_fname;
void c_dispatchValue_top(void *p, void *c, int tgt)
REQ_GS(p)
__CPROVER_requires(g_w < SKIP && model_pick_map == g_w && model_pick2_map == g_w && model_pick3_map == NONE)
__CPROVER_requires(NFA <= g_gs->funcAddrs._cap)
ASSIGNS_GS
__CPROVER_assigns(g_gs->fs.name, g_gs->fs.line)
ENS_MONO
/* a value never touches labels, pending jumps or the mark table */
__CPROVER_ensures(NLAB == OLD(NLAB) && NBP == OLD(NBP) && NMARK == OLD(NMARK) && LOOPS == OLD(LOOPS)) /*@C01*/
__CPROVER_ensures(g_lab >= NLAB || LABS[g_lab] == OLD(LABS[g_lab])) /*@C01*/
/* VALUE -> id : copy of the variable's register (target := source + 0) */
__CPROVER_ensures((c) == 0 || CN(c)->t != NT_NAME ||
                  (GNC >= OLD(GNC) + 1 && GOP(GNC - 1) == OP_ADD_CONST && GPAR(GNC - 1, PI_add_target) == tgt && GPAR(GNC - 1, PI_add_constant) == 0 &&
                   GPAR(GNC - 1, PI_add_source) >= 0 && (unsigned long)GPAR(GNC - 1, PI_add_source) < NREG &&
                   REGS[GPAR(GNC - 1, PI_add_source)].name._id == CN(c)->tok._id)) /*@C01,C03*/
/* VALUE -> int : constant load into the target */
__CPROVER_ensures((c) == 0 || CN(c)->t != NT_NUMBER ||
                  (GNC >= OLD(GNC) + 1 && GOP(GNC - 1) == OP_CONST && GPAR(GNC - 1, PI_constant_target) == tgt)) /*@C01*/
/* C20/C04: an integer literal that does not fit the word is rejected - as a value of its own ... */
__CPROVER_ensures((c) == 0 || CN(c)->t != NT_NUMBER || CN(c)->tok._id != g_num_id || g_num_val < INT_MAX || GNERR > OLD(GNERR)) /*@C20,C04*/
/* ... and as the constant of the built-in x + c / x - c sugar (RUN __INC__/__DEC__ WITH x, c END) */
__CPROVER_ensures((c) == 0 || CN(c)->t != NT_CALL || !IS_BUILTIN(g_fname) || g_argc != 2 || n_a1_t != NT_NAME || n_a2_t != NT_NUMBER ||
                  n_a2_tok != g_num_id || g_num_val < INT_MAX || GNERR > OLD(GNERR)) /*@C20,C04*/
/* C04/C16: a RUN of a name that is not (yet) in the program table is an error and emits no call */
__CPROVER_ensures((c) == 0 || CN(c)->t != NT_CALL || IS_BUILTIN(g_fname) || model_last_map < OLD(NFA) ||
                  (GNERR >= OLD(GNERR) + 1 && ERRT(GNERR - 1) == ET_UNKNOWN_PROGRAM_NAME && (GNC == OLD(GNC) || GOP(GNC - 1) != OP_EXEC || g_argc > 0))) /*@C04,C16*/
__CPROVER_ensures((c) == 0 || CN(c)->t != NT_CALL || IS_BUILTIN(g_fname) || model_last_map < OLD(NFA) ||
                  !(model_g_map < OLD(NFA) && FA[model_g_map].first._id == g_fname)) /*@C04,C16*/
/* C04: the number of arguments must equal the number of parameters */
__CPROVER_ensures((c) == 0 || CN(c)->t != NT_CALL || IS_BUILTIN(g_fname) || model_last_map >= OLD(NFA) || FA[model_last_map].second.argnum == g_argc ||
                  (GNERR >= OLD(GNERR) + 1 && ERRT(GNERR - 1) == ET_ARGSIZE_MISMATCH)) /*@C04,C03*/
/* C03: call sequence PREPARE(frame size, stack map, target) ; ARG k, temporary_k ... ; EXEC entry - all taken from the
 * program table entry of the callee */
__CPROVER_ensures((c) == 0 || CN(c)->t != NT_CALL || IS_BUILTIN(g_fname) || model_last_map >= OLD(NFA) || FA[model_last_map].second.argnum != g_argc ||
                  (GNC >= OLD(GNC) + 2 + (unsigned long)g_argc && FA[model_last_map].first._id == g_fname &&
                   GOP(GNC - 1) == OP_EXEC && GPAR(GNC - 1, PI_exec_entry) == FA[model_last_map].second.ind &&
                   GOP(GNC - 2 - g_argc) == OP_PREPARE_EXEC && GPAR(GNC - 2 - g_argc, PI_prepare_count) == FA[model_last_map].second.stack_size &&
                   GPAR(GNC - 2 - g_argc, PI_prepare_index) == FA[model_last_map].second.mi && GPAR(GNC - 2 - g_argc, PI_prepare_target) == tgt)) /*@C03,C01,C16*/
__CPROVER_ensures((c) == 0 || CN(c)->t != NT_CALL || IS_BUILTIN(g_fname) || model_last_map >= OLD(NFA) || FA[model_last_map].second.argnum != g_argc ||
                  g_k2 < 0 || g_k2 >= g_argc ||
                  (GOP(GNC - 1 - g_argc + g_k2) == OP_ARG && GPAR(GNC - 1 - g_argc + g_k2, PI_arg_target) == g_k2 &&
                   GPAR(GNC - 1 - g_argc + g_k2, PI_arg_source) >= 0 && (unsigned long)GPAR(GNC - 1 - g_argc + g_k2, PI_arg_source) < NREG)) /*@C03,C01*/
/* reachability of the cases (each must FAIL) */
__CPROVER_ensures((c) != 0) /*@CANARY*/
__CPROVER_ensures((c) == 0 || CN(c)->t != NT_NAME) /*@CANARY*/
__CPROVER_ensures((c) == 0 || CN(c)->t != NT_NUMBER) /*@CANARY*/
__CPROVER_ensures((c) == 0 || CN(c)->t != NT_NUMBER || CN(c)->tok._id != g_num_id || g_num_val < INT_MAX) /*@CANARY*/
__CPROVER_ensures((c) == 0 || CN(c)->t != NT_CALL || !IS_BUILTIN(g_fname) || g_argc != 2 || n_a1_t != NT_NAME || n_a2_t != NT_NUMBER || n_a2_tok != g_num_id || g_num_val < INT_MAX) /*@CANARY*/
__CPROVER_ensures((c) == 0 || CN(c)->t != NT_CALL || IS_BUILTIN(g_fname) || model_last_map < OLD(NFA)) /*@CANARY*/
__CPROVER_ensures((c) == 0 || CN(c)->t != NT_CALL || IS_BUILTIN(g_fname) || model_last_map >= OLD(NFA) || FA[model_last_map].second.argnum == g_argc) /*@CANARY*/
__CPROVER_ensures((c) == 0 || CN(c)->t != NT_CALL || IS_BUILTIN(g_fname) || model_last_map >= OLD(NFA) || FA[model_last_map].second.argnum != g_argc || g_argc != 0) /*@CANARY*/
__CPROVER_ensures((c) == 0 || CN(c)->t != NT_CALL || IS_BUILTIN(g_fname) || model_last_map >= OLD(NFA) || FA[model_last_map].second.argnum != g_argc || g_argc != 1) /*@CANARY*/
__CPROVER_ensures((c) == 0 || CN(c)->t != NT_CALL || IS_BUILTIN(g_fname) || model_last_map >= OLD(NFA) || FA[model_last_map].second.argnum != g_argc || g_argc != 2) /*@CANARY*/
__CPROVER_ensures((c) == 0 || CN(c)->t == NT_NAME || CN(c)->t == NT_NUMBER || CN(c)->t == NT_CALL) /*@CANARY*/;

/* ------------------------------------------------------------------ backpatch (C03: every jump lands where its label says)
 * N12 hook: every pending position is an instruction of the program whose operand, if it is a jump, is an existing label;
 * a position is pending once (emitBackpatched records each emitted jump once); g_cfree is some position that is not pending. */
unsigned long g_cfree;
int gb_loc, gb_op, gb_lab, gb_p1, gb_p2, gb_tgt;
void __verif_use_bp(int loc, unsigned long pos)
{
  __CPROVER_assume(loc >= 0 && (unsigned long)loc < GNC);
  /* labels hold code positions, or -1 while unset */
  __CPROVER_assume((GOP(loc) != OP_JMP && GOP(loc) != OP_JMPC) ||
                   (GPAR(loc, 0) >= 0 && (unsigned long)GPAR(loc, 0) < NLAB && LABS[GPAR(loc, 0)] >= -1));
  __CPROVER_assume((unsigned long)loc != g_cfree);
  __CPROVER_assume(pos == g_bp || g_bp >= NBP || loc != gb_loc);
}
#define BP_IS_JUMP (gb_op == OP_JMP || gb_op == OP_JMPC)
void c_backpatch(void *p)
REQ_GS(p)
/* snapshot of the ghost pending entry g_bp and of the instruction it names */
__CPROVER_requires(g_bp >= NBP || (gb_loc == BPS[g_bp] && gb_loc >= 0 && (unsigned long)gb_loc < GNC && gb_op == GOP(gb_loc) && gb_lab == GPAR(gb_loc, 0) &&
                   gb_p1 == GPAR(gb_loc, 1) && gb_p2 == GPAR(gb_loc, 2) &&
                   (!BP_IS_JUMP || (gb_lab >= 0 && (unsigned long)gb_lab < NLAB && gb_tgt == LABS[gb_lab] && gb_tgt >= -1))))
__CPROVER_requires(g_cfree >= GNC || (gc_op == GOP(g_cfree) && gc_p0 == GPAR(g_cfree, 0) && gc_p1 == GPAR(g_cfree, 1) && gc_p2 == GPAR(g_cfree, 2)))
__CPROVER_assigns(__CPROVER_object_whole(GCODE), g_gs->backpatching_todo._n, g_gs->errors._n, __CPROVER_object_whole(g_gs->errors._d))
/* every pending jump gets offset = position of its label - its own position; its opcode and other operands stay */
__CPROVER_ensures(g_bp >= OLD(NBP) || !BP_IS_JUMP ||
                  (GOP(gb_loc) == gb_op && GPAR(gb_loc, 0) == gb_tgt - gb_loc && GPAR(gb_loc, 1) == gb_p1 && GPAR(gb_loc, 2) == gb_p2)) /*@C03,C01*/
/* a pending position that is not a jump is an internal error: reported, the instruction is left alone */
__CPROVER_ensures(g_bp >= OLD(NBP) || BP_IS_JUMP ||
                  (GOP(gb_loc) == gb_op && GPAR(gb_loc, 0) == gb_lab && GPAR(gb_loc, 1) == gb_p1 && GPAR(gb_loc, 2) == gb_p2 && GNERR > OLD(GNERR))) /*@C03,C02*/
/* an unset label is reported (C04: jump to an unknown mark) */
__CPROVER_ensures(g_bp >= OLD(NBP) || !BP_IS_JUMP || gb_tgt != -1 || GNERR > OLD(GNERR)) /*@C04,C03*/
/* instructions that are not pending are untouched; the program does not change size; the list is consumed */
__CPROVER_ensures(g_cfree >= GNC || (GOP(g_cfree) == gc_op && GPAR(g_cfree, 0) == gc_p0 && GPAR(g_cfree, 1) == gc_p1 && GPAR(g_cfree, 2) == gc_p2)) /*@C03,C01*/
__CPROVER_ensures(GNC == OLD(GNC) && NBP == 0 && GNERR >= OLD(GNERR) && GNERR <= g_gs->errors._cap) /*@C03*/;

/* ------------------------------------------------------------------ dispatchProgram (C16: a program becomes callable only when
 * its generation is finished; C01/C03: JMP over the body, RET at the end).  The routine opens a NEW symbol table, so its
 * callees are described relative to the dynamic top DT; popSymbols records its call in ghosts. */
#define DT (g_gs->symbols._d[NSYM - 1])
int g_pop_calls, g_pop_addr;
unsigned long g_pop_gnc;
#define REQ_GSP(p) __CPROVER_requires((void *)(p) == (void *)g_gs && NSYM >= 1 && NSYM <= g_gs->symbols._cap && GNC <= g_gs->out.code._cap && \
                                      NLAB <= g_gs->labels._cap && NBP <= g_gs->backpatching_todo._cap && GNERR <= g_gs->errors._cap)
#define ASSIGNS_GSP                                                                       \
  __CPROVER_assigns(g_gs->out.code._n, __CPROVER_object_whole(GCODE), g_gs->labels._n, __CPROVER_object_whole(LABS), \
                    g_gs->backpatching_todo._n, __CPROVER_object_whole(BPS), g_gs->errors._n, __CPROVER_object_whole(g_gs->errors._d), \
                    __CPROVER_object_whole(g_gs->symbols._d), g_gs->loops)
#define ENS_MONO_P                                                                        \
  __CPROVER_ensures(GNC >= OLD(GNC) && GNC <= g_gs->out.code._cap && NLAB >= OLD(NLAB) && NLAB <= g_gs->labels._cap && NBP >= OLD(NBP) && \
                    NBP <= g_gs->backpatching_todo._cap && GNERR >= OLD(GNERR) && GNERR <= g_gs->errors._cap && NSYM == OLD(NSYM)) \
  __CPROVER_ensures(g_c >= OLD(GNC) || (GOP(g_c) == OLD(GOP(g_c)) && GPAR(g_c, 0) == OLD(GPAR(g_c, 0)) && GPAR(g_c, 1) == OLD(GPAR(g_c, 1)) && \
                                        GPAR(g_c, 2) == OLD(GPAR(g_c, 2)))) \
  __CPROVER_ensures(g_bp >= OLD(NBP) || BPS[g_bp] == OLD(BPS[g_bp]))
/* c_dispatchArgs: parameter allocation emits no code */
void c_dispatchArgs_prog(void *p, void *c) REQ_GSP(p) ASSIGNS_GSP ENS_MONO_P
__CPROVER_ensures(GNC == OLD(GNC) && NLAB == OLD(NLAB) && NBP == OLD(NBP));
void c_dispatchVoid_prog(void *p, void *c) REQ_GSP(p) ASSIGNS_GSP
  __CPROVER_ensures(GNC >= OLD(GNC) && GNC <= g_gs->out.code._cap && NLAB >= OLD(NLAB) && NLAB <= g_gs->labels._cap && NBP >= OLD(NBP) &&
                    NBP <= g_gs->backpatching_todo._cap && GNERR >= OLD(GNERR) && GNERR <= g_gs->errors._cap && NSYM == OLD(NSYM))
  /* dispatchVoid may take back a stop site that ends the code (c_dispatchVoid_top) */
  __CPROVER_ensures(g_c >= OLD(GNC) || (GOP(g_c) == OLD(GOP(g_c)) && GPAR(g_c, 0) == OLD(GPAR(g_c, 0)) && GPAR(g_c, 1) == OLD(GPAR(g_c, 1)) &&
                                        GPAR(g_c, 2) == OLD(GPAR(g_c, 2))) || (g_c + 1 == OLD(GNC) && OLD(GOP(g_c)) == OP_POTENTIAL_BREAK))
  __CPROVER_ensures(g_bp >= OLD(NBP) || BPS[g_bp] == OLD(BPS[g_bp]));
int c_fetchVariableRegister_prog(void *p, long name_id) REQ_GSP(p) ASSIGNS_GSP ENS_MONO_P
__CPROVER_ensures(GNC == OLD(GNC) && NLAB == OLD(NLAB) && NBP == OLD(NBP))
__CPROVER_ensures(__CPROVER_return_value >= 0 && (unsigned long)__CPROVER_return_value < DT.register_state._n);
void c_popSymbols_prog(void *p, int addr)
REQ_GSP(p)
__CPROVER_requires(NSYM >= 2)
__CPROVER_assigns(g_gs->symbols._n, g_gs->errors._n, __CPROVER_object_whole(g_gs->errors._d), g_pop_calls, g_pop_addr, g_pop_gnc)
/* ghost record of the call: with which entry address, and how much code existed */
__CPROVER_ensures(NSYM == OLD(NSYM) - 1 && g_pop_calls == OLD(g_pop_calls) + 1 && g_pop_addr == addr && g_pop_gnc == GNC)
__CPROVER_ensures(GNERR >= OLD(GNERR) && GNERR <= g_gs->errors._cap);

void c_dispatchProgram(void *p, void *c)
REQ_GSP(p)
__CPROVER_requires(NSYM == 2 && g_pop_calls == 0)
__CPROVER_assigns(g_gs->out.code._n, __CPROVER_object_whole(GCODE), g_gs->labels._n, __CPROVER_object_whole(LABS),
                  g_gs->backpatching_todo._n, __CPROVER_object_whole(BPS), g_gs->errors._n, __CPROVER_object_whole(g_gs->errors._d),
                  g_gs->symbols._n, __CPROVER_object_whole(g_gs->symbols._d), g_gs->loops, g_pop_calls, g_pop_addr, g_pop_gnc)
/* the definition is skipped by a jump (label operand, patched later) to the label that marks its end */
__CPROVER_ensures(GNC >= OLD(GNC) + 2 && NLAB >= OLD(NLAB) + 1 && NBP >= OLD(NBP) + 1 && NSYM == OLD(NSYM)) /*@C01,C03,C16*/
__CPROVER_ensures(g_c != OLD(GNC) || (GOP(g_c) == OP_JMP && GPAR(g_c, PI_jmp_offset) == (int)OLD(NLAB))) /*@C01,C03*/
__CPROVER_ensures(g_bp != OLD(NBP) || BPS[g_bp] == (int)OLD(GNC)) /*@C01,C03*/
__CPROVER_ensures(LABS[OLD(NLAB)] == (int)GNC) /*@C01,C03*/
/* the body ends with RET of a register */
__CPROVER_ensures(GOP(GNC - 1) == OP_RET && GPAR(GNC - 1, PI_ret_source) >= 0) /*@C01,C03*/
/* C16: the program is entered into the program table exactly once, AFTER its whole code (including RET) exists, with
 * the instruction after the jump as entry: no call inside its own body (or earlier) can reach it */
__CPROVER_ensures(g_pop_calls == 1 && g_pop_addr == (int)OLD(GNC) + 1 && g_pop_gnc == GNC) /*@C16,C03*/;

#ifdef SPEC_CHECKS_OFF
#pragma CPROVER check pop
#endif

/* ------------------------------------------------------------------ harness: builds the generator state */
int nondet_int(void);
long nondet_long(void);
_Bool nondet_bool(void);
void *nondet_ptr(void);
void *malloc(unsigned long);
#define K_SYM 3
#define K_MARKS 4
static gs_t the_gs;
static fgs_t the_syms[K_SYM];
static struct m_map_string_int_e the_marks[K_MARKS];
static void *mk(unsigned long n, unsigned long sz)
{
  void *r = malloc(n * sz);
  __CPROVER_assume(r != 0); /* T3 */
  return r;
}
static void *setup(void)
{
  unsigned long ccap = nondet_ulong(), lcap = nondet_ulong(), bcap = nondet_ulong(), ecap = nondet_ulong(), rcap = nondet_ulong();
  __CPROVER_assume(ccap <= INT_MAX && lcap <= INT_MAX && bcap <= INT_MAX && ecap <= INT_MAX && rcap <= INT_MAX);
#ifdef REG_CAP
  rcap = REG_CAP; /* bounded stand-in groups: constant frame capacity */
#endif
  model_ghost_havoc();
  the_gs.out.code._d = mk(ccap, sizeof(struct m_Instruction)); the_gs.out.code._cap = ccap; the_gs.out.code._n = nondet_ulong();
  the_gs.labels._d = mk(lcap, sizeof(int)); the_gs.labels._cap = lcap; the_gs.labels._n = nondet_ulong();
  the_gs.backpatching_todo._d = mk(bcap, sizeof(int)); the_gs.backpatching_todo._cap = bcap; the_gs.backpatching_todo._n = nondet_ulong();
  the_gs.errors._d = mk(ecap, sizeof(err_t)); the_gs.errors._cap = ecap; the_gs.errors._n = nondet_ulong();
  the_gs.symbols._d = the_syms; the_gs.symbols._cap = K_SYM; the_gs.symbols._n = nondet_ulong();
  /* the traversal functions only address symbols.back(); the depth of the symbol-table stack is fixed (a symbolic depth makes
   * every access to the open routine a symbolic index into 60-byte records, which the SAT back end does not survive) */
  __CPROVER_assume(the_gs.symbols._n == 2);
  g_gs = &the_gs;
  g_top = &the_syms[the_gs.symbols._n - 1];
  g_top->register_state._d = mk(rcap, sizeof(vreg_t)); g_top->register_state._cap = rcap; g_top->register_state._n = nondet_ulong();
  g_top->marks._d = the_marks; g_top->marks._cap = K_MARKS; g_top->marks._n = nondet_ulong();
  the_gs.loops = nondet_int(); the_gs.fs.line = nondet_int(); the_gs.fs.name._id = nondet_long();
  g_c = nondet_ulong(); g_r = nondet_ulong(); g_lab = nondet_ulong(); g_bp = nondet_ulong();
  gc_op = nondet_int(); gc_p0 = nondet_int(); gc_p1 = nondet_int(); gc_p2 = nondet_int();
  /* snapshot of the ghost register */
  gr_temp = nondet_int(); gr_use = nondet_int(); gr_name = nondet_long();
  __CPROVER_assume(g_r >= NREG || NREG > RCAP || (gr_temp == REGS[g_r].is_temp && gr_use == REGS[g_r].in_use && gr_name == REGS[g_r].name._id));
  return &the_gs;
}
#define K_FA 4
static struct m_map_string_Prog_e the_fa[K_FA];
static node_t n_call, n_name, n_s1, n_s2, n_a1, n_a2;
int g_argc, g_k2, n_a1_t, n_a2_t;
long g_fname, n_a2_tok;
long g_num_id, g_num_val;
/* a value node: NAME / NUMBER / CALL with at most two arguments (BOUND of the dispatchValue group) / anything else */
static void *setup_value(void)
{
  g_gs->funcAddrs._d = the_fa; g_gs->funcAddrs._cap = K_FA; g_gs->funcAddrs._n = nondet_ulong();
  n_call.left = &n_name; n_name.left = 0; n_name.right = 0;
  g_fname = n_name.tok._id;
  g_argc = nondet_int(); g_k2 = nondet_int(); g_w = nondet_ulong();
  __CPROVER_assume(g_argc >= 0 && g_argc <= 2);
  n_a1.left = 0; n_a1.right = 0; n_a2.left = 0; n_a2.right = 0;
  n_s1.t = NT_SPLIT; n_s2.t = NT_SPLIT; n_s1.left = &n_a1; n_s2.left = &n_a2; n_s2.right = 0;
  n_s1.right = g_argc == 2 ? &n_s2 : 0;
  n_call.right = g_argc == 0 ? 0 : &n_s1;
  __CPROVER_assume(n_a1.t != NT_SPLIT && n_a2.t != NT_SPLIT);
  n_a1_t = n_a1.t; n_a2_t = n_a2.t; n_a2_tok = n_a2.tok._id;
  g_num_id = nondet_long(); g_num_val = nondet_long();
  __CPROVER_assume(g_num_val >= 0);
  return &n_call;
}
#define CANARY __CPROVER_assert(0, "canary: end of harness reachable (requires satisfiable)")
void w_dispatchValue(void *p, void *c, int tgt);
void h_dispatchValue_top(void) { void *p = setup(); void *c = setup_value(); w_dispatchValue(p, nondet_bool() ? c : 0, nondet_int()); CANARY; }
int w_fetchTemporary(void *p);
int w_fetchVariableRegister(void *p, long name_id);
void w_dispatchLoop(void *p, void *c);
void h_fetchTemporary(void) { void *p = setup(); w_fetchTemporary(p); CANARY; }
void h_fetchVariableRegister(void) { void *p = setup(); w_fetchVariableRegister(p, nondet_long()); CANARY; }
void h_dispatchLoop(void) { void *p = setup(); void *c; g_rec_calls = 0; w_dispatchLoop(p, c); CANARY; }
static node_t n_prog, n_hdr, n_pname, n_ports, n_pargs, n_pout, n_body;
void w_dispatchProgram(void *p, void *c);
void h_dispatchProgram(void)
{
  void *p = setup();
  n_prog.left = &n_hdr; n_prog.right = nondet_bool() ? &n_body : 0;
  n_hdr.left = &n_pname; n_hdr.right = nondet_bool() ? &n_ports : 0; /* PORTS -> epsilon: no ports node */
  n_ports.left = nondet_bool() ? &n_pargs : 0; n_ports.right = nondet_bool() ? &n_pout : 0;
  g_pop_calls = 0;
  w_dispatchProgram(p, &n_prog);
  CANARY;
}
void w_backpatch(void *p);
void h_backpatch(void) { void *p = setup(); g_cfree = nondet_ulong(); gb_loc = nondet_int(); gb_op = nondet_int(); gb_lab = nondet_int(); gb_p1 = nondet_int(); gb_p2 = nondet_int(); gb_tgt = nondet_int(); w_backpatch(p); CANARY; }
void w_dispatchWhile(void *p, void *c); void w_dispatchGoto(void *p, void *c); void w_dispatchMark(void *p, void *c);
void w_dispatchAssign(void *p, void *c); void w_dispatchArgs(void *p, void *c);
void h_dispatchWhile(void) { void *p = setup(); void *c; g_rec_calls = 0; w_dispatchWhile(p, c); CANARY; }
void h_dispatchGoto(void) { void *p = setup(); void *c; g_w = nondet_ulong(); w_dispatchGoto(p, c); CANARY; }
void h_dispatchMark(void) { void *p = setup(); void *c; g_w = nondet_ulong(); w_dispatchMark(p, c); CANARY; }
void h_dispatchAssign(void) { void *p = setup(); void *c; g_fv_calls = 0; g_va_calls = 0; g_as_seq = 0; w_dispatchAssign(p, c); CANARY; }
void w_dispatchIf(void *p, void *c);
void h_dispatchIf(void) { void *p = setup(); void *c; g_w = nondet_ulong(); w_dispatchIf(p, c); CANARY; }
void h_dispatchArgs(void) { void *p = setup(); void *c; g_top->argnum = nondet_int(); w_dispatchArgs(p, c); CANARY; }
