/* Head of Theo::parse (Compiler/src/parse.cpp), from the opening brace to the call of Theo::scan: the hidden standard-macro file is
 * added, the include of it is put in front of the main file IF THAT FILE WAS SUPPLIED, and the scanner is then given the resulting map
 * and the caller's main name.  C15: a main file that was not supplied is still absent when the scanner looks for it (so that
 * Theo::scan - contracts/scan.c - reports MAIN_FILE_NOT_FOUND and returns the name as a file request); every supplied file is still
 * there under its name.  Theo::scan is used through a contract that records what it was given.
 * BOUNDED: at most 3 supplied files (capacity 5), map lookups by complete linear search. */
#include "lit_ids_parsepre.h"
#pragma pack(push, 1)
typedef struct { long k; long v; } ent_t;                         /* std::pair<std::string, std::string> of the model (packed) */
typedef struct { ent_t *_d; unsigned long _n; unsigned long _cap; } fmap_t;
#pragma pack(pop)
#define CAP 5
#define OLD(e) __CPROVER_old(e)
/* the key is in the first n entries of the table (capacity 5: written out) */
#define HAS(d, n, key) (((n) > 0 && (d)[0].k == (key)) || ((n) > 1 && (d)[1].k == (key)) || ((n) > 2 && (d)[2].k == (key)) || \
                        ((n) > 3 && (d)[3].k == (key)) || ((n) > 4 && (d)[4].k == (key)))
fmap_t *g_files; ent_t *g_ents;
long g_key;                                          /* ghost: an arbitrary file name other than the hidden one */
_Bool g0_has_main, g0_has_key;                        /* ghost: pre-state membership (tied to the pre-state in requires) */
int g_scan_calls; long g_scan_main; _Bool g_scan_has_main, g_scan_has_key, g_scan_has_std; unsigned long g_scan_n;

void c_scan_c(void *files, long main_id)
__CPROVER_requires(1)
__CPROVER_assigns(g_scan_calls, g_scan_main, g_scan_has_main, g_scan_has_key, g_scan_has_std, g_scan_n)
__CPROVER_ensures(g_scan_calls == OLD(g_scan_calls) + 1 && g_scan_main == main_id && g_scan_n == ((fmap_t *)files)->_n)
__CPROVER_ensures(g_scan_has_main == HAS(((fmap_t *)files)->_d, ((fmap_t *)files)->_n, main_id))
__CPROVER_ensures(g_scan_has_key == HAS(((fmap_t *)files)->_d, ((fmap_t *)files)->_n, g_key))
__CPROVER_ensures(g_scan_has_std == HAS(((fmap_t *)files)->_d, ((fmap_t *)files)->_n, LIT___standards__));

void c_parse_head(void *files, long main_id)
__CPROVER_requires(files == (void *)g_files && g_files->_d == g_ents && g_files->_n <= 3 && g_files->_cap == CAP && g_scan_calls == 0)
__CPROVER_requires(g_key != LIT___standards__)
__CPROVER_requires(g0_has_main == HAS(g_ents, g_files->_n, main_id) && g0_has_key == HAS(g_ents, g_files->_n, g_key))
/* keys pairwise distinct */
__CPROVER_requires((g_files->_n < 2 || g_ents[0].k != g_ents[1].k) && (g_files->_n < 3 || (g_ents[0].k != g_ents[2].k && g_ents[1].k != g_ents[2].k)))
__CPROVER_assigns(__CPROVER_object_whole(g_ents), g_scan_calls, g_scan_main, g_scan_has_main, g_scan_has_key, g_scan_has_std, g_scan_n)
/* the scanner is called once, with the caller's main name */
__CPROVER_ensures(g_scan_calls == 1 && g_scan_main == main_id) /*@C15,C02*/
/* C15: the main file is in the scanner's map exactly if it was supplied (the hidden file's own name aside) */
__CPROVER_ensures(main_id == LIT___standards__ || g_scan_has_main == g0_has_main) /*@C15*/
/* C15: so is every other file name: none appears from nowhere (an include of it must be reported missing), none is lost */
__CPROVER_ensures(g_scan_has_key == g0_has_key) /*@C15*/
/* the hidden standard-macro file is available to the scanner */
__CPROVER_ensures(g_scan_has_std) /*@C04*/
/* reachability of both cases (must FAIL) */
__CPROVER_ensures(!(g0_has_main && main_id != LIT___standards__)) /*@CANARY*/
__CPROVER_ensures(!(!g0_has_main && OLD(g_files->_n) == 3)) /*@CANARY*/;

long nondet_long(void);
unsigned long nondet_ulong(void);
static ent_t the_ents[CAP];
static fmap_t the_files;
void w_parse_head(void *files, long main_id);
void h_parse_head(void)
{
  g_files = &the_files; g_ents = the_ents; the_files._d = the_ents; the_files._n = nondet_ulong(); the_files._cap = CAP;
  for (int i = 0; i < CAP; i++) { the_ents[i].k = nondet_long(); the_ents[i].v = nondet_long(); }
  g_key = nondet_long(); g_scan_calls = 0;
  long m = nondet_long();
  g0_has_main = HAS(the_ents, the_files._n, m); g0_has_key = HAS(the_ents, the_files._n, g_key);
  w_parse_head(&the_files, m);
  __CPROVER_assert(0, "canary: end of harness reachable (requires satisfiable)");
}
