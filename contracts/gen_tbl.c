/* C08 (and the site mechanisms of C07): the two breakpoint tables are only ever changed together.
 * GenState::breakpoint adds exactly one site to both tables, GenState::removeTopPotBreak removes exactly the top site from
 * both, GenState::advanceLine emits at most one site and never for the hidden standard-macro file, getMarkPos resolves a
 * label to the site just emitted.  The global invariant TBL ("the tables are inverse, every site is listed") follows by
 * induction over these exact deltas (meta-argument); a token scan confirms nothing else in gen.cpp names the tables. */
#define MODEL_GHOST_DEFINE
#include "gen_common.h"
#ifdef SPEC_CHECKS_OFF
#pragma CPROVER check push
#pragma CPROVER check disable "pointer"
#pragma CPROVER check disable "bounds"
#pragma CPROVER check disable "signed-overflow"
#pragma CPROVER check disable "conversion"
#pragma CPROVER check disable "pointer-overflow"
#pragma CPROVER check disable "pointer-primitive"
#endif
gs_t *g_gs;
unsigned long g_c, g_l, g_w, g_o, g_s, go_n;
int gc_op, gc_p0, gc_p1, gc_p2, gl_key, gl_line, go_line, gs_val;
long gl_file, go_file;
int *go_d;
/* snapshots of the witness entries used by removeTopPotBreak */
unsigned long g_lw;            /* line_info index of the top site */
unsigned long gw_n_old;
int *gw_d_old;
long gw_file;
int gw_line;
int g_top_site;                /* pre-state: the last instruction is a POTENTIAL_BREAK */

/* ------------------------------------------------------------------ emit / getNextPos / getMarkPos */
int c_getNextPos(void *p)
REQ_TBL_SHAPE(p)
__CPROVER_assigns()
__CPROVER_ensures(__CPROVER_return_value == (int)NC(p)) /*@C07,C08*/;

int c_getMarkPos(void *p)
REQ_TBL_SHAPE(p)
__CPROVER_requires(NC(p) >= 1)
__CPROVER_assigns()
/* a label resolves to the site of its line when one was just emitted */
__CPROVER_ensures(__CPROVER_return_value == (OPC(p, NC(p) - 1) == OP_POTENTIAL_BREAK ? (int)NC(p) - 1 : (int)NC(p))) /*@C07,C03*/;

/* ------------------------------------------------------------------ breakpoint(): one site added to both tables */
void c_breakpoint(void *p)
REQ_TBL_SHAPE(p)
__CPROVER_requires(NC(p) < CCAP(p) && NLI(p) < LICAP(p) && NPB(p) < PBCAP(p) && (g_w >= NPB(p) || SITES(p, g_w)._n < SITES(p, g_w)._cap)) /* T3 */
/* lookups: line_info[pos] chooses freely, potential_breaks[bp] may find the ghost entry g_w */
__CPROVER_requires(model_pick_map == SKIP && model_pick2_map == g_w && model_pick3_map == NONE)
__CPROVER_assigns(G(p)->out.code._n, CODE(p)[NC(p)], G(p)->out.line_info._n, __CPROVER_object_whole(LI(p)), G(p)->out.potential_breaks._n,
                  __CPROVER_object_whole(PB(p)), MODEL_MAP_GHOSTS)
__CPROVER_assigns(g_w < NPB(p): __CPROVER_object_whole(SITES(p, g_w)._d))
/* one POTENTIAL_BREAK appended, earlier code untouched */
__CPROVER_ensures(NC(p) == OLD(NC(p)) + 1 && OPC(p, NC(p) - 1) == OP_POTENTIAL_BREAK) /*@C08,C07*/
__CPROVER_ensures(CODE_G_SAME(p)) /*@C08,C01*/
/* line_info: exactly the entry (new site -> current position) is added; only if that site was already a key
 * (impossible: keys are earlier code positions) is an entry overwritten instead */
__CPROVER_ensures((model_last2_map < OLD(NLI(p)) && NLI(p) == OLD(NLI(p)) && LI_IS(p, model_last2_map, (int)OLD(NC(p)), FSN(p), FSL(p))) ||
                  (model_last2_map == OLD(NLI(p)) && NLI(p) == OLD(NLI(p)) + 1 && LI_IS(p, NLI(p) - 1, (int)OLD(NC(p)), FSN(p), FSL(p)))) /*@C08*/
__CPROVER_ensures(g_l >= OLD(NLI(p)) || g_l == model_last2_map || LI_IS(p, g_l, gl_key, gl_file, gl_line)) /*@C08*/
/* potential_breaks: the site is appended to the list of the current position (a new entry when the position has none) */
__CPROVER_ensures(model_last_map < OLD(NPB(p))
                      ? (NPB(p) == OLD(NPB(p)) && BPEQ(PB(p)[model_last_map].first, FSN(p), FSL(p)) &&
                         SITES(p, model_last_map)._n == OLD(SITES(p, g_w)._n) + 1 &&
                         SITES(p, model_last_map)._d[SITES(p, model_last_map)._n - 1] == (int)OLD(NC(p)))
                      : (NPB(p) == OLD(NPB(p)) + 1 && BPEQ(PB(p)[NPB(p) - 1].first, FSN(p), FSL(p)) && SITES(p, NPB(p) - 1)._n == 1 &&
                         SITES(p, NPB(p) - 1)._d[0] == (int)OLD(NC(p)) &&
                         !(model_g_map < OLD(NPB(p)) && BPEQ(PB(p)[model_g_map].first, FSN(p), FSL(p))))) /*@C08*/
__CPROVER_ensures(model_last_map >= OLD(NPB(p)) || model_last_map == g_w) /*@C08*/
__CPROVER_ensures(model_last_map >= OLD(NPB(p)) || g_s >= OLD(SITES(p, g_w)._n) || SITES(p, g_w)._d[g_s] == gs_val) /*@C08*/
__CPROVER_ensures(g_o >= OLD(NPB(p)) || g_o == model_last_map || PB_O_SAME_AT(p, g_o)) /*@C08*/
/* reachability of the cases (each must FAIL) */
__CPROVER_ensures(model_last_map < OLD(NPB(p))) /*@CANARY*/
__CPROVER_ensures(model_last_map >= OLD(NPB(p))) /*@CANARY*/;

/* ------------------------------------------------------------------ removeTopPotBreak(): exactly the top site removed from both */
#define TOP_IS_SITE(p) (NC(p) >= 1 && OPC(p, NC(p) - 1) == OP_POTENTIAL_BREAK)
void c_removeTopPotBreak(void *p)
REQ_TBL_SHAPE(p)
__CPROVER_requires(NC(p) >= 1 && g_top_site == TOP_IS_SITE(p))
/* TBL instance (existential, witnesses g_lw and g_w): the top site is recorded in line_info at g_lw, and its position's
 * entry g_w of potential_breaks lists it last (site lists grow in code order) */
__CPROVER_requires(!g_top_site || (g_lw < NLI(p) && LI(p)[g_lw].first == (int)NC(p) - 1 && g_w < NPB(p) &&
                   BPEQ(PB(p)[g_w].first, LI(p)[g_lw].second.file._id, LI(p)[g_lw].second.line) && SITES(p, g_w)._n >= 1 &&
                   SITES(p, g_w)._d[SITES(p, g_w)._n - 1] == (int)NC(p) - 1))
__CPROVER_requires(g_w >= NPB(p) || (gw_n_old == SITES(p, g_w)._n && gw_d_old == SITES(p, g_w)._d && gw_file == PB(p)[g_w].first.file._id &&
                                     gw_line == PB(p)[g_w].first.line))
__CPROVER_requires(model_pick_map == g_lw && model_pick2_map == g_lw && model_pick3_map == g_w && g_lw < SKIP)
__CPROVER_assigns(g_top_site: G(p)->out.code._n, G(p)->out.line_info._n, __CPROVER_object_whole(LI(p)), G(p)->out.potential_breaks._n,
                  __CPROVER_object_whole(PB(p)), MODEL_MAP_GHOSTS)
__CPROVER_ensures(NC(p) == OLD(NC(p)) - (g_top_site ? 1 : 0)) /*@C08,C07*/
__CPROVER_ensures(g_c >= NC(p) || (OPC(p, g_c) == gc_op && PAR(p, g_c, 0) == gc_p0 && PAR(p, g_c, 1) == gc_p1 && PAR(p, g_c, 2) == gc_p2)) /*@C08,C01*/
/* line_info loses exactly the entry of the top site (the container model moves the last entry into the hole) */
__CPROVER_ensures(!g_top_site || NLI(p) == OLD(NLI(p)) - 1) /*@C08*/
__CPROVER_ensures(!g_top_site || g_l >= OLD(NLI(p)) || g_l == g_lw ||
                  (g_l < NLI(p) && LI_IS(p, g_l, gl_key, gl_file, gl_line)) || (g_lw < NLI(p) && LI_IS(p, g_lw, gl_key, gl_file, gl_line))) /*@C08*/
/* the position's site list loses exactly its last element (the top site); the entry disappears only when the list is empty */
__CPROVER_ensures(!g_top_site || gw_n_old < 2 ||
                  (NPB(p) == OLD(NPB(p)) && BPEQ(PB(p)[g_w].first, gw_file, gw_line) && SITES(p, g_w)._n == gw_n_old - 1 &&
                   SITES(p, g_w)._d == gw_d_old)) /*@C08*/
__CPROVER_ensures(!g_top_site || gw_n_old != 1 || NPB(p) == OLD(NPB(p)) - 1) /*@C08*/
__CPROVER_ensures(!g_top_site || g_s >= gw_n_old || g_s + 1 >= gw_n_old || SITES(p, g_w)._d[g_s] == gs_val) /*@C08*/
/* every other entry is kept (possibly moved into the hole of an erased entry) */
__CPROVER_ensures(!g_top_site || g_o >= OLD(NPB(p)) || g_o == g_w || (g_o < NPB(p) && PB_O_SAME_AT(p, g_o)) || (g_w < NPB(p) && PB_O_SAME_AT(p, g_w))) /*@C08*/
/* reachability of the cases (each must FAIL) */
__CPROVER_ensures(g_top_site) /*@CANARY*/
__CPROVER_ensures(!g_top_site) /*@CANARY*/
__CPROVER_ensures(!g_top_site || gw_n_old != 1) /*@CANARY*/
__CPROVER_ensures(!g_top_site || gw_n_old < 2) /*@CANARY*/;

/* ------------------------------------------------------------------ advanceLine(): at most one site, never for the hidden file */
#define ADV_SKIPS(p, l, f) ((f) == LIT___standards__ || (FSN(p) == (f) && FSL(p) == (l)))
int g_adv_skips;
void c_advanceLine(void *p, int new_lineno, long file_id)
REQ_TBL_SHAPE(p)
__CPROVER_requires(NC(p) < CCAP(p) && NLI(p) < LICAP(p) && NPB(p) < PBCAP(p) && (g_w >= NPB(p) || SITES(p, g_w)._n < SITES(p, g_w)._cap)) /* T3 */
__CPROVER_requires(model_pick_map == SKIP && model_pick2_map == g_w && model_pick3_map == NONE)
__CPROVER_requires(g_adv_skips == ADV_SKIPS(p, new_lineno, file_id))
__CPROVER_assigns(!g_adv_skips: G(p)->fs.name, G(p)->fs.line, G(p)->out.code._n, CODE(p)[NC(p)], G(p)->out.line_info._n, __CPROVER_object_whole(LI(p)),
                  G(p)->out.potential_breaks._n, __CPROVER_object_whole(PB(p)), MODEL_MAP_GHOSTS)
__CPROVER_assigns(!g_adv_skips && g_w < NPB(p): __CPROVER_object_whole(SITES(p, g_w)._d))
/* the hidden standard-macro file never gets a site; staying on the same position emits nothing */
__CPROVER_ensures(!g_adv_skips || (NC(p) == OLD(NC(p)) && NLI(p) == OLD(NLI(p)) && NPB(p) == OLD(NPB(p)))) /*@C07,C08*/
/* otherwise exactly one site is emitted for the new position, recorded in both tables */
__CPROVER_ensures(g_adv_skips || (FSN(p) == file_id && FSL(p) == new_lineno && NC(p) == OLD(NC(p)) + 1 && OPC(p, NC(p) - 1) == OP_POTENTIAL_BREAK)) /*@C07,C08*/
__CPROVER_ensures(CODE_G_SAME(p)) /*@C08,C01*/
__CPROVER_ensures(g_adv_skips || (model_last2_map < OLD(NLI(p)) && NLI(p) == OLD(NLI(p)) && LI_IS(p, model_last2_map, (int)OLD(NC(p)), file_id, new_lineno)) ||
                  (model_last2_map == OLD(NLI(p)) && NLI(p) == OLD(NLI(p)) + 1 && LI_IS(p, NLI(p) - 1, (int)OLD(NC(p)), file_id, new_lineno))) /*@C07,C08*/
__CPROVER_ensures(g_adv_skips || (model_last_map < OLD(NPB(p))
                      ? (NPB(p) == OLD(NPB(p)) && BPEQ(PB(p)[model_last_map].first, file_id, new_lineno) &&
                         SITES(p, model_last_map)._n == OLD(SITES(p, g_w)._n) + 1 &&
                         SITES(p, model_last_map)._d[SITES(p, model_last_map)._n - 1] == (int)OLD(NC(p)))
                      : (NPB(p) == OLD(NPB(p)) + 1 && BPEQ(PB(p)[NPB(p) - 1].first, file_id, new_lineno) && SITES(p, NPB(p) - 1)._n == 1 &&
                         SITES(p, NPB(p) - 1)._d[0] == (int)OLD(NC(p))))) /*@C07,C08*/
/* reachability of the cases (each must FAIL) */
__CPROVER_ensures(g_adv_skips) /*@CANARY*/
__CPROVER_ensures(!g_adv_skips) /*@CANARY*/
__CPROVER_ensures(g_adv_skips || model_last_map < OLD(NPB(p))) /*@CANARY*/
__CPROVER_ensures(g_adv_skips || model_last_map >= OLD(NPB(p))) /*@CANARY*/;

#ifdef SPEC_CHECKS_OFF
#pragma CPROVER check pop
#endif

/* ------------------------------------------------------------------ harnesses */
int nondet_int(void);
long nondet_long(void);
int *nondet_pint(void);
gs_t *nondet_pgs(void);
int w_getNextPos(void *p);
int w_getMarkPos(void *p);
void w_breakpoint(void *p);
void w_removeTopPotBreak(void *p);
void w_advanceLine(void *p, int l, long f);
static void havoc(void)
{
  model_ghost_havoc();
  g_gs = nondet_pgs();
  g_c = nondet_ulong(); g_l = nondet_ulong(); g_w = nondet_ulong(); g_o = nondet_ulong(); g_s = nondet_ulong(); go_n = nondet_ulong();
  gc_op = nondet_int(); gc_p0 = nondet_int(); gc_p1 = nondet_int(); gc_p2 = nondet_int(); gl_key = nondet_int(); gl_line = nondet_int();
  go_line = nondet_int(); gs_val = nondet_int(); gl_file = nondet_long(); go_file = nondet_long(); go_d = nondet_pint();
  g_lw = nondet_ulong(); gw_n_old = nondet_ulong(); gw_d_old = nondet_pint(); gw_file = nondet_long(); gw_line = nondet_int();
  g_top_site = nondet_int(); g_adv_skips = nondet_int();
}
#define CANARY __CPROVER_assert(0, "canary: end of harness reachable (requires satisfiable)")
void h_getNextPos(void) { void *p; havoc(); w_getNextPos(p); CANARY; }
void h_getMarkPos(void) { void *p; havoc(); w_getMarkPos(p); CANARY; }
void h_breakpoint(void) { void *p; havoc(); w_breakpoint(p); CANARY; }
void h_removeTopPotBreak(void) { void *p; havoc(); w_removeTopPotBreak(p); CANARY; }
void h_advanceLine(void) { void *p; havoc(); w_advanceLine(p, nondet_int(), nondet_long()); CANARY; }
