/* Contracts of the driver functions of Compiler/src/gen.cpp: dispatchVoid (the statement dispatcher), gen_ast, Theo::gen.
 * The generator state, its ghosts, MONO and the harness `setup()` are those of contracts/gen_disp.c (included).
 * Every callee is used through a contract that RECORDS its call in ghost variables (how often, with which node, in which
 * order), so that the dispatcher's own contract can state which routine handles which node kind and in which order. */
#include "gen_disp.c"

#ifdef SPEC_CHECKS_OFF
#pragma CPROVER check push
#pragma CPROVER check disable "pointer"
#pragma CPROVER check disable "bounds"
#pragma CPROVER check disable "signed-overflow"
#pragma CPROVER check disable "conversion"
#pragma CPROVER check disable "pointer-overflow"
#pragma CPROVER check disable "pointer-primitive"
#endif
/* ghost call record */
int g_seq;                                   /* number of recorded calls so far */
int g_dv_calls, g_dv_kind, g_dv_seq;         /* statement routines: how many calls, node kind of the routine, position in the order */
void *g_dv_node;
int g_al_calls, g_al_line, g_al_seq;         /* advanceLine */
long g_al_file;
int g_rt_calls, g_rt_seq;                    /* removeTopPotBreak */
int g_rc_calls, g_rc_seq1, g_rc_seq2;        /* recursive dispatchVoid calls (SPLIT) */
void *g_rc_node1, *g_rc_node2;
unsigned long g_al_gnc;                      /* code size after advanceLine */
int gn_t, gn_line;                           /* snapshot of the node under the dispatcher */
long gn_file;
void *gn_left, *gn_right;

#define ASSIGNS_REC __CPROVER_assigns(g_seq, g_dv_calls, g_dv_kind, g_dv_seq, g_dv_node)
/* statement routines as callees of the dispatcher: frame and MONO of the routine (proved for each routine by its own group),
 * plus the record of the call */
#define DV_CALLEE(NAME, KIND)                                                             \
void c_dv_##NAME(void *p, void *c)                                                        \
REQ_GS(p)                                                                                 \
ASSIGNS_GS_CALLEE                                                                         \
ASSIGNS_REC                                                                               \
ENS_MONO                                                                                  \
__CPROVER_ensures(g_dv_calls == OLD(g_dv_calls) + 1 && g_dv_kind == (KIND) && g_dv_node == c && g_seq == OLD(g_seq) + 1 && g_dv_seq == OLD(g_seq))
DV_CALLEE(Assign, NT_ASSIGN);
DV_CALLEE(Loop, NT_LOOP);
DV_CALLEE(While, NT_WHILE);
DV_CALLEE(Mark, NT_MARK);
DV_CALLEE(Goto, NT_GOTO);
DV_CALLEE(If, NT_IF);
/* dispatchProgram additionally opens and closes a symbol table of its own and enters the program into the tables */
void c_dv_Program(void *p, void *c)
REQ_GS(p)
__CPROVER_assigns(g_gs->out.code._n, __CPROVER_object_whole(GCODE), g_gs->labels._n, __CPROVER_object_whole(LABS),
                  g_gs->backpatching_todo._n, __CPROVER_object_whole(BPS), g_gs->errors._n, __CPROVER_object_whole(g_gs->errors._d), g_gs->loops)
ASSIGNS_REC
ENS_MONO
__CPROVER_ensures(GNC >= OLD(GNC) + 2) /* c_dispatchProgram: at least the skip jump and RET */
__CPROVER_ensures(g_dv_calls == OLD(g_dv_calls) + 1 && g_dv_kind == NT_PROGRAM && g_dv_node == c && g_seq == OLD(g_seq) + 1 && g_dv_seq == OLD(g_seq));

void c_dv_advanceLine(void *p, int line, long file_id)
REQ_GS(p)
__CPROVER_assigns(g_gs->out.code._n, __CPROVER_object_whole(GCODE), g_gs->fs.name, g_gs->fs.line, g_seq, g_al_calls, g_al_line, g_al_file, g_al_seq, g_al_gnc)
ENS_MONO
__CPROVER_ensures(GNC <= OLD(GNC) + 1 && (GNC == OLD(GNC) || GOP(GNC - 1) == OP_POTENTIAL_BREAK) && NLAB == OLD(NLAB) && NBP == OLD(NBP) &&
                  GNERR == OLD(GNERR) && NREG == OLD(NREG))
__CPROVER_ensures(g_al_calls == OLD(g_al_calls) + 1 && g_al_line == line && g_al_file == file_id && g_seq == OLD(g_seq) + 1 && g_al_seq == OLD(g_seq) &&
                  g_al_gnc == GNC);

/* removeTopPotBreak (contracts/gen_tbl.c: c_removeTopPotBreak): takes back the last instruction iff it is a stop site */
void c_dv_removeTopPotBreak(void *p)
REQ_GS(p)
__CPROVER_requires(GNC >= 1)
__CPROVER_assigns(g_gs->out.code._n, g_seq, g_rt_calls, g_rt_seq)
__CPROVER_ensures(GNC == OLD(GNC) - (OLD(GOP(GNC - 1)) == OP_POTENTIAL_BREAK ? 1 : 0))
__CPROVER_ensures(g_rt_calls == OLD(g_rt_calls) + 1 && g_seq == OLD(g_seq) + 1 && g_rt_seq == OLD(g_seq));

/* the recursive calls of the SPLIT case */
void c_dv_rec(void *p, void *c)
REQ_GS(p)
ASSIGNS_GS_CALLEE
__CPROVER_assigns(g_seq, g_rc_calls, g_rc_seq1, g_rc_seq2, g_rc_node1, g_rc_node2)
ENS_MONO_V
__CPROVER_ensures(g_rc_calls == OLD(g_rc_calls) + 1 && g_seq == OLD(g_seq) + 1)
__CPROVER_ensures(OLD(g_rc_calls) != 0 || (g_rc_node1 == c && g_rc_seq1 == OLD(g_seq)))
__CPROVER_ensures(OLD(g_rc_calls) != 1 || (g_rc_node2 == c && g_rc_seq2 == OLD(g_seq) && g_rc_node1 == OLD(g_rc_node1) && g_rc_seq1 == OLD(g_rc_seq1)));

/* ------------------------------------------------------------------ dispatchVoid */
#define T_OF(c) (((node_t *)(c))->t)
#define IS_STMT_KIND(t) ((t) == NT_ASSIGN || (t) == NT_LOOP || (t) == NT_WHILE || (t) == NT_MARK || (t) == NT_GOTO || (t) == NT_IF || (t) == NT_PROGRAM)
void c_dispatchVoid_top(void *p, void *c)
REQ_GS(p)
__CPROVER_requires((c) == 0 || (NODE_OK(c) && T_OF(c) == gn_t && ((node_t *)(c))->line == gn_line && ((node_t *)(c))->file._id == gn_file &&
                   ((node_t *)(c))->left == gn_left && ((node_t *)(c))->right == gn_right))
__CPROVER_requires(GNC >= 1) /* Theo::gen emits the root PREPARE before anything is dispatched */
__CPROVER_requires(g_seq == 0 && g_dv_calls == 0 && g_al_calls == 0 && g_rt_calls == 0 && g_rc_calls == 0)
ASSIGNS_GS_CALLEE
__CPROVER_assigns(g_gs->fs.name, g_gs->fs.line, g_seq, g_dv_calls, g_dv_kind, g_dv_seq, g_dv_node, g_al_calls, g_al_line, g_al_file, g_al_seq, g_al_gnc,
                  g_rt_calls, g_rt_seq, g_rc_calls, g_rc_seq1, g_rc_seq2, g_rc_node1, g_rc_node2)
ENS_MONO_V
/* C02: an absent subtree (P -> epsilon, empty bodies) generates nothing and touches nothing */
__CPROVER_ensures((c) != 0 || (g_seq == 0 && GNC == OLD(GNC) && NLAB == OLD(NLAB) && NBP == OLD(NBP) && GNERR == OLD(GNERR))) /*@C02,C01*/
/* C07: for every node, first of all, the generator's position is advanced to the node's line and file (which emits the stop
 * site of a new line) */
__CPROVER_ensures((c) == 0 || (g_al_calls == 1 && g_al_seq == 0 && g_al_line == gn_line && g_al_file == gn_file)) /*@C07,C08*/
/* C01: each statement kind is handled by its own routine, called exactly once with this node, and nothing else is generated */
__CPROVER_ensures((c) == 0 || !IS_STMT_KIND(gn_t) || (g_dv_calls == 1 && g_dv_kind == gn_t && g_dv_node == c && g_rc_calls == 0)) /*@C01,C07*/
/* C07: the stop site of a PROGRAM header is taken back before the program is generated - and for no other statement */
__CPROVER_ensures((c) == 0 || g_rt_calls == (gn_t == NT_PROGRAM ? 1 : 0)) /*@C07,C08*/
__CPROVER_ensures((c) == 0 || gn_t != NT_PROGRAM || (g_rt_seq == 1 && g_dv_seq == 2)) /*@C07,C08*/
/* C01: a sequence generates its left part, then its right part, and nothing else */
__CPROVER_ensures((c) == 0 || gn_t != NT_SPLIT || (g_rc_calls == 2 && g_rc_node1 == gn_left && g_rc_node2 == gn_right &&
                  g_rc_seq1 == 1 && g_rc_seq2 == 2 && g_dv_calls == 0)) /*@C01*/
/* STOP is the HALT instruction */
__CPROVER_ensures((c) == 0 || gn_t != NT_STOP || (GNC == g_al_gnc + 1 && GOP(GNC - 1) == OP_HALT && g_dv_calls == 0 && g_rc_calls == 0 &&
                  GNERR == OLD(GNERR))) /*@C01*/
/* reachability of every case under the recording callee contracts (each of these must FAIL) */
__CPROVER_ensures((c) != 0) /*@CANARY*/
__CPROVER_ensures((c) == 0 || gn_t != NT_ASSIGN) /*@CANARY*/
__CPROVER_ensures((c) == 0 || gn_t != NT_LOOP) /*@CANARY*/
__CPROVER_ensures((c) == 0 || gn_t != NT_WHILE) /*@CANARY*/
__CPROVER_ensures((c) == 0 || gn_t != NT_MARK) /*@CANARY*/
__CPROVER_ensures((c) == 0 || gn_t != NT_GOTO) /*@CANARY*/
__CPROVER_ensures((c) == 0 || gn_t != NT_IF) /*@CANARY*/
__CPROVER_ensures((c) == 0 || gn_t != NT_PROGRAM) /*@CANARY*/
__CPROVER_ensures((c) == 0 || gn_t != NT_SPLIT) /*@CANARY*/
__CPROVER_ensures((c) == 0 || gn_t != NT_STOP) /*@CANARY*/
__CPROVER_ensures((c) == 0 || IS_STMT_KIND(gn_t) || gn_t == NT_SPLIT || gn_t == NT_STOP) /*@CANARY*/
/* C02/C04: any other node kind is reported as a malformed tree, nothing is generated for it */
__CPROVER_ensures((c) == 0 || IS_STMT_KIND(gn_t) || gn_t == NT_SPLIT || gn_t == NT_STOP ||
                  (GNERR == OLD(GNERR) + 1 && g_gs->errors._d[GNERR - 1].t == ET_MALFORMED_AST && GNC == g_al_gnc && g_dv_calls == 0 && g_rc_calls == 0)) /*@C02,C04*/;

/* ------------------------------------------------------------------ gen_ast (C02: code generation only runs on error-free trees;
 * the parser's errors are forwarded otherwise) */
#include "gen_drv_macros.h"
unsigned long g_ie;  /* arbitrary index of a parser error */
void c_dv_root(void *p, void *c)
REQ_GS(p)
ASSIGNS_GS_CALLEE
__CPROVER_assigns(g_seq, g_rc_calls, g_rc_node1)
ENS_MONO_V
__CPROVER_ensures(g_rc_calls == OLD(g_rc_calls) + 1 && g_seq == OLD(g_seq) + 1 && g_rc_node1 == c);

void c_gen_ast(void *p)
REQ_GS(p)
__CPROVER_requires(NIE <= g_gs->in.errors._cap && g_gs->in.errors._cap <= INT_MAX && (NIE == 0 || IE != 0) && GNERR + NIE <= g_gs->errors._cap)
__CPROVER_requires(g_seq == 0 && g_rc_calls == 0)
ASSIGNS_GS_CALLEE
__CPROVER_assigns(g_seq, g_rc_calls, g_rc_node1)
ENS_MONO_V
/* an error-free tree: exactly the root is dispatched */
__CPROVER_ensures(!OLD(IN_OK) || (g_rc_calls == 1 && g_rc_node1 == OLD(g_gs->in.root))) /*@C02,C01*/
__CPROVER_ensures(!OLD(IN_OK)) /*@CANARY*/
__CPROVER_ensures(OLD(IN_OK)) /*@CANARY*/
/* a tree with errors: nothing is dispatched, no code is generated, every parser error is forwarded in order with its message
 * and location as a PARSE_ERROR (so the result is marked incorrect with these errors) */
__CPROVER_ensures(OLD(IN_OK) || (g_rc_calls == 0 && GNC == OLD(GNC) && NLAB == OLD(NLAB) && NBP == OLD(NBP) && GNERR == OLD(GNERR) + NIE)) /*@C02*/
__CPROVER_ensures(OLD(IN_OK) || g_ie >= NIE || (GERR[OLD(GNERR) + g_ie].t == ET_PARSE_ERROR && GERR[OLD(GNERR) + g_ie].line == IE[g_ie].line &&
                  GERR[OLD(GNERR) + g_ie].file._id == IE[g_ie].file._id && GERR[OLD(GNERR) + g_ie].message._id == IE[g_ie].msg._id)) /*@C02*/;
#ifdef SPEC_CHECKS_OFF
#pragma CPROVER check pop
#endif

static node_t n_stmt;
void w_dispatchVoid(void *p, void *c);
void h_dispatchVoid_top(void)
{
  void *p = setup();
  gn_t = nondet_int(); gn_line = nondet_int(); gn_file = nondet_long(); gn_left = nondet_ptr(); gn_right = nondet_ptr();
  g_seq = 0; g_dv_calls = 0; g_al_calls = 0; g_rt_calls = 0; g_rc_calls = 0;
  w_dispatchVoid(p, nondet_bool() ? (void *)&n_stmt : (void *)0);
  CANARY;
}
void w_gen_ast(void *p);
void h_gen_ast(void)
{
  void *p = setup();
#ifdef IE_CAP
  /* bounded stand-in: at most IE_CAP parser errors (constant-size array) */
  static struct m_SyntaxError the_ie[IE_CAP];
  the_gs.in.errors._d = the_ie; the_gs.in.errors._cap = IE_CAP; the_gs.in.errors._n = nondet_ulong();
#else
  unsigned long icap = nondet_ulong();
  __CPROVER_assume(icap <= INT_MAX);
  the_gs.in.errors._d = mk(icap, sizeof(struct m_SyntaxError)); the_gs.in.errors._cap = icap; the_gs.in.errors._n = nondet_ulong();
#endif
  g_ie = nondet_ulong(); g_seq = 0; g_rc_calls = 0;
  w_gen_ast(p);
  CANARY;
}
