/* Production conformance and tree shape of P (Compiler/src/parse.cpp), the statement parser (C04: the parser accepts exactly the
 * statement forms of the grammar; C01/C07: each form yields the tree the generator expects).
 * Method: every callee of P is replaced by a RECORDING variant of its contract (the clauses of the contract proved for the callee
 * in contracts/parse.c, plus an entry in a ghost trace: which terminal was matched / which nonterminal was parsed, and the node
 * it returned).  P's contract then states, per lookahead, the exact sequence of terminals and nonterminals it goes through and
 * how the returned nodes are assembled.  Together with `match` ("an error is recorded exactly when the kind differs") this gives:
 * P records no error only if the tokens it consumed spell one of its productions. */
#include "parse.c"
#ifdef SPEC_CHECKS_OFF
#pragma CPROVER check push
#pragma CPROVER check disable "pointer"
#pragma CPROVER check disable "bounds"
#pragma CPROVER check disable "signed-overflow"
#pragma CPROVER check disable "conversion"
#pragma CPROVER check disable "pointer-overflow"
#pragma CPROVER check disable "pointer-primitive"
#endif
#define TR_MAX 12
int g_tr[TR_MAX];        /* trace: token kind matched, or one of the nonterminal codes below */
unsigned long g_trn[TR_MAX]; /* node returned by that step, as an integer (0 for match): a havocked POINTER array element cannot be
                              * equated with a freshly allocated object in CBMC, an integer can */
int g_trla[TR_MAX];      /* lookahead after that step */
unsigned long g_tn;
#define N_VALUE 1001
#define N_P 1002
#define N_MOREP 1003
#define N_EEOS 1004
#define ASSIGNS_TR_ALL __CPROVER_assigns(g_tn, __CPROVER_object_whole(g_tr), __CPROVER_object_whole(g_trn), __CPROVER_object_whole(g_trla))
/* a callee appends ONE entry: the earlier entries are outside its frame */
#define ASSIGNS_TR __CPROVER_assigns(g_tn, g_tr[g_tn], g_trn[g_tn], g_trla[g_tn])
#define REQ_TR __CPROVER_requires(g_tn < TR_MAX)
#define ENS_TR(code, node) __CPROVER_ensures(g_tn == OLD(g_tn) + 1 && g_tr[OLD(g_tn)] == (code) && g_trn[OLD(g_tn)] == (unsigned long)(node) && g_trla[OLD(g_tn)] == LA)

void c_match_r(void *ps, int t)
REQ_TOK(ps) REQ_TR
ASSIGNS_PARSE ASSIGNS_TR
ENS_MONO
__CPROVER_ensures(NERR == OLD(NERR) + (OLD(LA) != t ? 1 : 0))
__CPROVER_ensures(NNODE == OLD(NNODE))
__CPROVER_ensures(OLD(LA) != t || TOKI == OLD(TOKI) + (t == TK_T_EOF ? 0 : 1))
ENS_TR(t, 0);

void *c_matchmk_r(void *ps, int t, int n, void *l, void *r)
REQ_TOK(ps) REQ_TR
ASSIGNS_PARSE ASSIGNS_TR
ENS_MONO
__CPROVER_ensures(FRESH_NODE(__CPROVER_return_value))
__CPROVER_ensures(NODE_OF_TOK(__CPROVER_return_value, OLD(TOKI), n) && N_(__CPROVER_return_value)->left == l && N_(__CPROVER_return_value)->right == r)
__CPROVER_ensures(NERR == OLD(NERR) + (OLD(LA) != t ? 1 : 0))
__CPROVER_ensures(OLD(LA) != t || TOKI == OLD(TOKI) + (t == TK_T_EOF ? 0 : 1))
__CPROVER_ensures(NNODE == OLD(NNODE) + 1)
ENS_TR(t, __CPROVER_return_value);

#define NT_CALLEE_R(NAME, CODE)                                                           \
void *NAME(void *ps)                                                                      \
REQ_TOK(ps) REQ_TR                                                                        \
ASSIGNS_PARSE ASSIGNS_TR                                                                  \
ENS_MONO                                                                                  \
__CPROVER_ensures(FRESH_OR_NULL(__CPROVER_return_value))                                  \
ENS_TR(CODE, __CPROVER_return_value)
NT_CALLEE_R(c_VALUE_r, N_VALUE);
NT_CALLEE_R(c_P_r, N_P);
NT_CALLEE_R(c_MOREP_r, N_MOREP);
void c_eeos_r(void *ps)
REQ_TOK(ps) REQ_TR
ASSIGNS_PARSE ASSIGNS_TR
ENS_MONO
ENS_TR(N_EEOS, 0);

/* the trace is exactly k0 .. */
#define TR1(a) (g_tn == 1 && g_tr[0] == (a))
#define TR3(a, b, c) (g_tn == 3 && g_tr[0] == (a) && g_tr[1] == (b) && g_tr[2] == (c))
#define TR4(a, b, c, d) (g_tn == 4 && g_tr[0] == (a) && g_tr[1] == (b) && g_tr[2] == (c) && g_tr[3] == (d))
#define TR5(a, b, c, d, e) (g_tn == 5 && g_tr[0] == (a) && g_tr[1] == (b) && g_tr[2] == (c) && g_tr[3] == (d) && g_tr[4] == (e))
#define TR7(a, b, c, d, e, f, g) (g_tn == 7 && g_tr[0] == (a) && g_tr[1] == (b) && g_tr[2] == (c) && g_tr[3] == (d) && g_tr[4] == (e) && g_tr[5] == (f) && g_tr[6] == (g))
#define TR8(a, b, c, d, e, f, g, h) (g_tn == 8 && g_tr[0] == (a) && g_tr[1] == (b) && g_tr[2] == (c) && g_tr[3] == (d) && g_tr[4] == (e) && g_tr[5] == (f) && g_tr[6] == (g) && g_tr[7] == (h))
#define TR9(a, b, c, d, e, f, g, h, i) (g_tn == 9 && g_tr[0] == (a) && g_tr[1] == (b) && g_tr[2] == (c) && g_tr[3] == (d) && g_tr[4] == (e) && g_tr[5] == (f) && g_tr[6] == (g) && g_tr[7] == (h) && g_tr[8] == (i))
#define RET (__CPROVER_return_value)
#define TRN(k) ((void *)g_trn[k])
#define L_(r) (N_(r)->left)
#define R_(r) (N_(r)->right)
#define IS(r, ty) ((r) != 0 && N_(r)->t == (ty))
void *c_P_prod(void *ps)
REQ_TOK(ps)
__CPROVER_requires(g_tn == 0)
ASSIGNS_PARSE ASSIGNS_TR_ALL
ENS_MONO
/* P -> loop id do P end MOREP          tree: SPLIT(SPLIT(LOOP(id, body), MARK(end)), more) */
__CPROVER_ensures(OLD(LA) != TK_LOOP || (TR7(TK_LOOP, TK_ID, TK_DO, N_P, TK_END, N_MOREP, N_EEOS) && IS(RET, NT_SPLIT) && IS(L_(RET), NT_SPLIT) &&
                  IS(L_(L_(RET)), NT_LOOP) && L_(L_(L_(RET))) == TRN(1) && R_(L_(L_(RET))) == TRN(3) && IS(R_(L_(RET)), NT_MARK) &&
                  L_(R_(L_(RET))) == TRN(4) && R_(RET) == TRN(5))) /*@C04,C01,C07*/
/* P -> while id != 0 do P end MOREP    tree: SPLIT(SPLIT(WHILE(id, body), MARK(end)), more) */
__CPROVER_ensures(OLD(LA) != TK_WHILE || (TR8(TK_WHILE, TK_ID, TK_NEQ_ZERO, TK_DO, N_P, TK_END, N_MOREP, N_EEOS) && IS(RET, NT_SPLIT) && IS(L_(RET), NT_SPLIT) &&
                  IS(L_(L_(RET)), NT_WHILE) && L_(L_(L_(RET))) == TRN(1) && R_(L_(L_(RET))) == TRN(4) && IS(R_(L_(RET)), NT_MARK) &&
                  L_(R_(L_(RET))) == TRN(5) && R_(RET) == TRN(6))) /*@C04,C01,C07*/
/* P -> goto id MOREP                   tree: SPLIT(GOTO(id), more) */
__CPROVER_ensures(OLD(LA) != TK_GOTO || (TR4(TK_GOTO, TK_ID, N_MOREP, N_EEOS) && IS(RET, NT_SPLIT) && IS(L_(RET), NT_GOTO) && L_(L_(RET)) == TRN(1) &&
                  R_(L_(RET)) == 0 && R_(RET) == TRN(2))) /*@C04,C01*/
/* P -> if id = int then goto id MOREP  tree: SPLIT(IF(EQ(id, int), GOTO(id)), more) */
__CPROVER_ensures(OLD(LA) != TK_IF || (TR9(TK_IF, TK_ID, TK_EQ, TK_INT, TK_THEN, TK_GOTO, TK_ID, N_MOREP, N_EEOS) && IS(RET, NT_SPLIT) && IS(L_(RET), NT_IF) &&
                  IS(L_(L_(RET)), NT_EQ) && L_(L_(L_(RET))) == TRN(1) && R_(L_(L_(RET))) == TRN(3) && IS(R_(L_(RET)), NT_GOTO) &&
                  L_(R_(L_(RET))) == TRN(6) && R_(RET) == TRN(7))) /*@C04,C01*/
/* P -> stop MOREP                      tree: SPLIT(STOP, more) */
__CPROVER_ensures(OLD(LA) != TK_STOP || (TR3(TK_STOP, N_MOREP, N_EEOS) && IS(RET, NT_SPLIT) && L_(RET) == TRN(0) && R_(RET) == TRN(1))) /*@C04,C01*/
/* P -> id := VALUE MOREP               tree: SPLIT(ASSIGN(id, value), more)
 * P -> id : P MOREP                    tree: SPLIT(SPLIT(MARK(id), p), more)
 * an id followed by anything else is an error (no node for the statement) */
__CPROVER_ensures(OLD(LA) != TK_ID || g_trla[0] != TK_ASSIGN || (TR5(TK_ID, TK_ASSIGN, N_VALUE, N_MOREP, N_EEOS) && IS(RET, NT_SPLIT) && IS(L_(RET), NT_ASSIGN) &&
                  L_(L_(RET)) == TRN(0) && R_(L_(RET)) == TRN(2) && R_(RET) == TRN(3))) /*@C04,C01*/
__CPROVER_ensures(OLD(LA) != TK_ID || g_trla[0] != TK_LABELDEC || (TR5(TK_ID, TK_LABELDEC, N_P, N_MOREP, N_EEOS) && IS(RET, NT_SPLIT) && IS(L_(RET), NT_SPLIT) &&
                  IS(L_(L_(RET)), NT_MARK) && L_(L_(L_(RET))) == TRN(0) && R_(L_(RET)) == TRN(2) && R_(RET) == TRN(3))) /*@C04,C01,C07*/
__CPROVER_ensures(OLD(LA) != TK_ID || g_trla[0] == TK_ASSIGN || g_trla[0] == TK_LABELDEC || (TR3(TK_ID, N_MOREP, N_EEOS) && NERR > OLD(NERR) && IS(RET, NT_SPLIT) &&
                  L_(RET) == 0)) /*@C04,C02*/
/* reachability of every case under the recording callee contracts (each of these must FAIL) */
__CPROVER_ensures(OLD(LA) != TK_LOOP) /*@CANARY*/
__CPROVER_ensures(OLD(LA) != TK_WHILE) /*@CANARY*/
__CPROVER_ensures(OLD(LA) != TK_GOTO) /*@CANARY*/
__CPROVER_ensures(OLD(LA) != TK_IF) /*@CANARY*/
__CPROVER_ensures(OLD(LA) != TK_STOP) /*@CANARY*/
__CPROVER_ensures(OLD(LA) != TK_ID || g_trla[0] != TK_ASSIGN) /*@CANARY*/
__CPROVER_ensures(OLD(LA) != TK_ID || g_trla[0] != TK_LABELDEC) /*@CANARY*/
__CPROVER_ensures(OLD(LA) != TK_ID || g_trla[0] == TK_ASSIGN || g_trla[0] == TK_LABELDEC) /*@CANARY*/
__CPROVER_ensures(OLD(LA) == TK_ID || OLD(LA) == TK_LOOP || OLD(LA) == TK_WHILE || OLD(LA) == TK_GOTO || OLD(LA) == TK_IF || OLD(LA) == TK_STOP) /*@CANARY*/
/* anything else starts no statement: an error, recovery, no node */
__CPROVER_ensures(OLD(LA) == TK_ID || OLD(LA) == TK_LOOP || OLD(LA) == TK_WHILE || OLD(LA) == TK_GOTO || OLD(LA) == TK_IF || OLD(LA) == TK_STOP ||
                  (TR1(N_EEOS) && NERR > OLD(NERR) && RET == 0)) /*@C04,C02*/;

/* S -> program id PORTS do P end S     tree: SPLIT(PROGRAM(SPLIT(id, ports), SPLIT(body, MARK(end))), more)
 * S -> P */
#define N_PORTS 1005
#define N_S 1006
NT_CALLEE_R(c_PORTS_r, N_PORTS);
NT_CALLEE_R(c_S_r, N_S);
void *c_S_prod(void *ps)
REQ_TOK(ps)
__CPROVER_requires(g_tn == 0)
ASSIGNS_PARSE ASSIGNS_TR_ALL
ENS_MONO
__CPROVER_ensures(OLD(LA) != TK_PROGRAM || (TR7(TK_PROGRAM, TK_ID, N_PORTS, TK_DO, N_P, TK_END, N_S) && IS(RET, NT_SPLIT) && IS(L_(RET), NT_PROGRAM) &&
                  IS(L_(L_(RET)), NT_SPLIT) && L_(L_(L_(RET))) == TRN(1) && R_(L_(L_(RET))) == TRN(2) && IS(R_(L_(RET)), NT_SPLIT) &&
                  L_(R_(L_(RET))) == TRN(4) && IS(R_(R_(L_(RET))), NT_MARK) && L_(R_(R_(L_(RET)))) == TRN(5) && R_(RET) == TRN(6))) /*@C04,C01,C07,C16*/
__CPROVER_ensures(OLD(LA) == TK_PROGRAM || (TR1(N_P) && RET == TRN(0))) /*@C04,C01*/
__CPROVER_ensures(OLD(LA) != TK_PROGRAM) /*@CANARY*/
__CPROVER_ensures(OLD(LA) == TK_PROGRAM) /*@CANARY*/;
#ifdef SPEC_CHECKS_OFF
#pragma CPROVER check pop
#endif
void h_S_prod(void) { void *ps = setup(); g_tn = 0; w_S(ps); CANARY; }
void h_P_prod(void) { void *ps = setup(); g_tn = 0; w_P(ps); CANARY; }
