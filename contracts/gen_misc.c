/* Literal conversion (C20, C04): strToInt / strToIntSilent of Compiler/src/gen.cpp.
 * T5: strtol is modelled by its C11 specification for digit strings - the value of the string whose identity is the
 * ghost g_num_id is the ghost g_num_val (>= 0, saturated at LONG_MAX by strtol itself); any other string yields some
 * non-negative value. */
#define MODEL_GHOST_DEFINE
#include "gen_common.h"
#ifdef SPEC_CHECKS_OFF
#pragma CPROVER check push
#pragma CPROVER check disable "pointer"
#pragma CPROVER check disable "bounds"
#pragma CPROVER check disable "signed-overflow"
#pragma CPROVER check disable "conversion"
#pragma CPROVER check disable "pointer-overflow"
#pragma CPROVER check disable "pointer-primitive"
#endif
gs_t *g_gs;
unsigned long g_c, g_l, g_w, g_o, g_s, go_n;
int gc_op, gc_p0, gc_p1, gc_p2, gl_key, gl_line, go_line, gs_val;
long gl_file, go_file;
int *go_d;
long g_num_id, g_num_val;
long nondet_long(void);
unsigned long nondet_ulong(void);
/* strtoul on the same string: the same mathematical value, saturated at ULONG_MAX instead of LONG_MAX */
unsigned long g_num_uval;
unsigned long strtoul(const char *s, char **end, int base)
{
  unsigned long r = nondet_ulong();
  if ((long)s == g_num_id) {
    __CPROVER_assume(g_num_uval <= 9223372036854775807ul ? g_num_val == (long)g_num_uval : g_num_val == 9223372036854775807l);
    r = g_num_uval;
  }
  return r;
}
long strtol(const char *s, char **end, int base)
{
  long r = nondet_long();
  __CPROVER_assume(r >= 0);
  if ((long)s == g_num_id) r = g_num_val;
  return r;
}

#define REQ_ERRS(p)                                                                       \
  __CPROVER_requires(__CPROVER_is_fresh(p, sizeof(gs_t)))                                 \
  __CPROVER_requires(NERR(p) < ERRCAP(p) && ERRCAP(p) <= INT_MAX) /* T3 */                \
  __CPROVER_requires(__CPROVER_is_fresh(ERRS(p), ERRCAP(p) * sizeof(err_t)))
#define REQ_NUMNODE(c)                                                                    \
  __CPROVER_requires(__CPROVER_is_fresh(c, sizeof(node_t)))                               \
  __CPROVER_requires(((node_t *)(c))->tok._id == g_num_id && g_num_val >= 0)

int c_strToInt(void *p, void *c)
REQ_ERRS(p)
REQ_NUMNODE(c)
__CPROVER_assigns(G(p)->errors._n, ERRS(p)[NERR(p)])
/* a literal that does not fit the word (>= 2^31-1) is rejected with a range error ... */
__CPROVER_ensures(g_num_val < INT_MAX || (NERR(p) == OLD(NERR(p)) + 1 && ERRS(p)[NERR(p) - 1].t == ET_INTERNAL_ERROR &&
                  ERRS(p)[NERR(p) - 1].file._id == FSN(p) && ERRS(p)[NERR(p) - 1].line == FSL(p))) /*@C20,C04,C02*/
/* ... every other literal is converted exactly and silently */
__CPROVER_ensures(g_num_val >= INT_MAX || (__CPROVER_return_value == (int)g_num_val && NERR(p) == OLD(NERR(p)))) /*@C20,C04*/;

int c_strToIntSilent(void *c)
REQ_NUMNODE(c)
__CPROVER_assigns()
__CPROVER_ensures(g_num_val > INT_MAX || __CPROVER_return_value == (int)g_num_val) /*@C20*/
/* always a natural number that fits the word, so that the caller can negate it (x - c sugar) */
__CPROVER_ensures(__CPROVER_return_value >= 0) /*@C20,C02*/;
#ifdef SPEC_CHECKS_OFF
#pragma CPROVER check pop
#endif

int w_strToInt(void *p, void *c);
int w_strToIntSilent(void *c);
#define CANARY __CPROVER_assert(0, "canary: end of harness reachable (requires satisfiable)")
void h_strToInt(void) { void *p, *c; model_ghost_havoc(); g_num_id = nondet_long(); g_num_val = nondet_long(); g_num_uval = nondet_ulong(); w_strToInt(p, c); CANARY; }
void h_strToIntSilent(void) { void *c; model_ghost_havoc(); g_num_id = nondet_long(); g_num_val = nondet_long(); g_num_uval = nondet_ulong(); w_strToIntSilent(c); CANARY; }
