/* predicates shared by contracts/gen_drv.c and contracts/gen_ast.loops.json.in */
#define IN_OK (g_gs->in.parsed_correctly)
#define NIE (g_gs->in.errors._n)
#define IE (g_gs->in.errors._d)
#define GERR (g_gs->errors._d)
#ifdef LOOP_INV_CONTEXT
#include "mirror_gen.h"
#endif
