/* Symbol-table side of the code generator (C03 frame/arity bookkeeping, C16 "a program becomes callable only when its
 * generation is finished", C04 unknown-mark rule, C07 stack maps): GenState::popSymbols, FunctionGenState::fetchTemporary /
 * releaseTemporary / fetchVariableRegister, createLabel / setLabel / emitBackpatched.
 * popSymbols has two loops in a function whose locals cannot be named in loop contracts (explicit parameter, probe 13):
 * it is enforced as a BOUNDED stand-in (<= 2 marks, <= 3 registers, small tables). */
#define MODEL_GHOST_DEFINE
#include "gen_common.h"
#ifdef SPEC_CHECKS_OFF
#pragma CPROVER check push
#pragma CPROVER check disable "pointer"
#pragma CPROVER check disable "bounds"
#pragma CPROVER check disable "signed-overflow"
#pragma CPROVER check disable "conversion"
#pragma CPROVER check disable "pointer-overflow"
#pragma CPROVER check disable "pointer-primitive"
#endif
gs_t *g_gs;
unsigned long g_c, g_l, g_w, g_o, g_s, go_n;
int gc_op, gc_p0, gc_p1, gc_p2, gl_key, gl_line, go_line, gs_val;
long gl_file, go_file;
int *go_d;
unsigned long g_r;  /* ghost register index */
unsigned long g_m;  /* ghost stack-map entry */
int g_unset0, g_unset1; /* pre-state: mark 0 / 1 of the routine was referenced but never set */

#define NSYM(p) (G(p)->symbols._n)
#define SYMS(p) (G(p)->symbols._d)
#define TOPF(p) (SYMS(p)[NSYM(p) - 1])
#define NSM(p) (G(p)->out.stack_maps._n)
#define SMS(p) (G(p)->out.stack_maps._d)
#define NFA(p) (G(p)->funcAddrs._n)
#define FAS(p) (G(p)->funcAddrs._d)
#define NLAB(p) (G(p)->labels._n)
#define LABS(p) (G(p)->labels._d)
typedef struct m_StackMap sm_t;
typedef struct m_map_string_Prog_e fa_e;
typedef struct m_map_string_int_e mk_e;
typedef struct m_map_int_string_e sme_e;

/* ------------------------------------------------------------------ popSymbols (bounded stand-in) */
#ifndef K_REG
#define K_REG 3
#endif
#define K_MARK 2
#ifndef K_TBL
#define K_TBL 4
#endif
/* the popped table stays in memory (pop_back only shrinks the vector): the routine just finished */
#define TOPF_OLD(p) (SYMS(p)[OLD(NSYM(p)) - 1])
#define UNSET_MARK(p, j) ((j) < TOPF(p).marks._n && LABS(p)[TOPF(p).marks._d[j].second] == -1)
void c_popSymbols(void *p, int addr)
__CPROVER_requires(__CPROVER_is_fresh(p, sizeof(gs_t)))
__CPROVER_requires(NSYM(p) >= 1 && NSYM(p) <= K_TBL && G(p)->symbols._cap == K_TBL)
__CPROVER_requires(__CPROVER_is_fresh(SYMS(p), K_TBL * sizeof(fgs_t)))
__CPROVER_requires(TOPF(p).register_state._n <= K_REG && TOPF(p).register_state._cap == K_REG)
__CPROVER_requires(__CPROVER_is_fresh(TOPF(p).register_state._d, K_REG * sizeof(vreg_t)))
__CPROVER_requires(TOPF(p).marks._n <= K_MARK && TOPF(p).marks._cap == K_MARK)
__CPROVER_requires(__CPROVER_is_fresh(TOPF(p).marks._d, K_MARK * sizeof(mk_e)))
__CPROVER_requires(NLAB(p) <= G(p)->labels._cap && G(p)->labels._cap <= INT_MAX)
__CPROVER_requires(__CPROVER_is_fresh(LABS(p), G(p)->labels._cap * sizeof(int)))
/* C03: every mark of the routine refers to a label that exists */
__CPROVER_requires((TOPF(p).marks._n < 1 || (TOPF(p).marks._d[0].second >= 0 && (unsigned long)TOPF(p).marks._d[0].second < NLAB(p))) &&
                   (TOPF(p).marks._n < 2 || (TOPF(p).marks._d[1].second >= 0 && (unsigned long)TOPF(p).marks._d[1].second < NLAB(p))))
__CPROVER_requires(NERR(p) + K_MARK <= ERRCAP(p) && ERRCAP(p) <= K_TBL + K_MARK)
__CPROVER_requires(__CPROVER_is_fresh(ERRS(p), (K_TBL + K_MARK) * sizeof(err_t)))
__CPROVER_requires(NSM(p) < G(p)->out.stack_maps._cap && G(p)->out.stack_maps._cap == K_TBL)
__CPROVER_requires(__CPROVER_is_fresh(SMS(p), K_TBL * sizeof(sm_t)))
__CPROVER_requires(NFA(p) < G(p)->funcAddrs._cap && G(p)->funcAddrs._cap == K_TBL)
__CPROVER_requires(__CPROVER_is_fresh(FAS(p), K_TBL * sizeof(fa_e)))
__CPROVER_requires(g_unset0 == UNSET_MARK(p, 0) && g_unset1 == UNSET_MARK(p, 1))
__CPROVER_requires(model_pick_map == NONE && model_pick2_map == NONE && model_pick3_map == NONE)
__CPROVER_assigns(G(p)->symbols._n, G(p)->errors._n, __CPROVER_object_whole(ERRS(p)), G(p)->out.stack_maps._n, __CPROVER_object_whole(SMS(p)),
                  G(p)->funcAddrs._n, __CPROVER_object_whole(FAS(p)), MODEL_MAP_GHOSTS)
/* the routine is finished: its symbol table is popped */
__CPROVER_ensures(NSYM(p) == OLD(NSYM(p)) - 1) /*@C03,C16*/
/* C04 static rule: exactly one UNKNOWN_MARK error per mark that was referenced but never set */
__CPROVER_ensures(NERR(p) == OLD(NERR(p)) + (g_unset0 ? 1 : 0) + (g_unset1 ? 1 : 0)) /*@C04,C02*/
/* one stack map is appended, named after the routine, listing exactly the non-temporary registers by name (C07) */
__CPROVER_ensures(NSM(p) == OLD(NSM(p)) + 1 && SMS(p)[NSM(p) - 1].func_name._id == TOPF_OLD(p).name._id) /*@C03,C07*/
__CPROVER_ensures(g_m >= SMS(p)[NSM(p) - 1].map._n ||
                  (SMS(p)[NSM(p) - 1].map._d[g_m].first >= 0 && (unsigned long)SMS(p)[NSM(p) - 1].map._d[g_m].first < TOPF_OLD(p).register_state._n &&
                   !TOPF_OLD(p).register_state._d[SMS(p)[NSM(p) - 1].map._d[g_m].first].is_temp &&
                   SMS(p)[NSM(p) - 1].map._d[g_m].second._id ==
                       TOPF_OLD(p).register_state._d[SMS(p)[NSM(p) - 1].map._d[g_m].first].name._id)) /*@C07,C03*/
/* C03/C16: the program table records, under the routine's name, its entry, the index of ITS stack map, its argument count
 * and its frame size = number of registers allocated */
__CPROVER_ensures(model_last_map <= OLD(NFA(p)) && model_last_map < NFA(p) && FAS(p)[model_last_map].first._id == TOPF_OLD(p).name._id &&
                  FAS(p)[model_last_map].second.ind == addr && FAS(p)[model_last_map].second.mi == (int)NSM(p) - 1 &&
                  FAS(p)[model_last_map].second.argnum == TOPF_OLD(p).argnum &&
                  FAS(p)[model_last_map].second.stack_size == (int)TOPF_OLD(p).register_state._n) /*@C03,C16*/;

#ifdef SPEC_CHECKS_OFF
#pragma CPROVER check pop
#endif
void w_popSymbols(void *p, int addr);
int nondet_int(void);
#define CANARY __CPROVER_assert(0, "canary: end of harness reachable (requires satisfiable)")
void h_popSymbols(void) { void *p; model_ghost_havoc(); g_r = nondet_ulong(); g_m = nondet_ulong(); g_unset0 = nondet_int(); g_unset1 = nondet_int(); w_popSymbols(p, nondet_int()); CANARY; }
