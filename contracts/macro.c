/* Macro extraction helpers of Compiler/src/macro.cpp (C02: index clamping at the end of input, C20: priority / insertion
 * index conversion with a range error).  Pre-state built by the harness (see contracts/parse.c).  mirror_macro.h GENERATED. */
#include "mirror_macro.h"
#define INT_MAX 2147483647
typedef struct m_ExtractionState es_t;
typedef struct m_Token tok_t;
typedef struct m_ParseError perr_t;
#ifdef SPEC_CHECKS_OFF
#pragma CPROVER check push
#pragma CPROVER check disable "pointer"
#pragma CPROVER check disable "bounds"
#pragma CPROVER check disable "signed-overflow"
#pragma CPROVER check disable "conversion"
#pragma CPROVER check disable "pointer-overflow"
#pragma CPROVER check disable "pointer-primitive"
#endif
es_t *g_es;
struct m_vec_Token *g_tv; /* the referenced token vector */
#define POS (g_es->tok_pos)
#define NT (g_tv->_n)
#define TOKS (g_tv->_d)
#define NE (g_es->encountered_errors._n)
#define ERRS (g_es->encountered_errors._d)
#define NO (g_es->output._n)
#define OUTS (g_es->output._d)
#define OLD(e) __CPROVER_old(e)
#define CLAMPED (POS < NT ? POS : NT - 1)
long g_num_id, g_num_val;
long nondet_long(void);
/* T5: strtol on a digit string (see contracts/gen_misc.c) */
unsigned long nondet_ulong(void);
/* strtoul on the same string: the same mathematical value, saturated at ULONG_MAX instead of LONG_MAX */
unsigned long g_num_uval;
unsigned long strtoul(const char *s, char **end, int base)
{
  unsigned long r = nondet_ulong();
  if ((long)s == g_num_id) {
    __CPROVER_assume(g_num_uval <= 9223372036854775807ul ? g_num_val == (long)g_num_uval : g_num_val == 9223372036854775807l);
    r = g_num_uval;
  }
  return r;
}
long strtol(const char *s, char **end, int base)
{
  long r = nondet_long();
  __CPROVER_assume(r >= 0);
  if ((long)s == g_num_id) r = g_num_val;
  return r;
}
/* the scanner always delivers at least the EOF token (scan.cpp; fix 139a8a1) */
#define REQ_ES(p)                                                                         \
  __CPROVER_requires((void *)(p) == (void *)g_es && g_es->tokens == (void *)g_tv && NT >= 1 && NT <= INT_MAX && NT <= g_tv->_cap) \
  __CPROVER_requires(NE <= g_es->encountered_errors._cap && g_es->encountered_errors._cap <= INT_MAX && NO <= g_es->output._cap && \
                     g_es->output._cap <= INT_MAX)

int c_mlookahead(void *p)
REQ_ES(p)
__CPROVER_assigns()
/* beyond the end of the input the lookahead is EOF (no read outside the token vector) */
__CPROVER_ensures(__CPROVER_return_value == (POS >= NT ? TK_T_EOF : TOKS[POS].t)) /*@C02*/
/* reachability of the cases (each must FAIL) */
__CPROVER_ensures(POS >= NT) /*@CANARY*/
__CPROVER_ensures(POS < NT) /*@CANARY*/;

_Bool c_mmatch(void *p, int expect)
REQ_ES(p)
__CPROVER_assigns(POS, g_es->encountered_errors._n, __CPROVER_object_whole(ERRS))
__CPROVER_ensures(POS == OLD(POS) + 1) /*@C02*/
__CPROVER_ensures(__CPROVER_return_value == ((OLD(POS) >= NT ? TK_T_EOF : TOKS[OLD(POS)].t) == expect)) /*@C02*/
/* a mismatch is reported, located at the current (clamped) token */
__CPROVER_ensures(NE == OLD(NE) + (__CPROVER_return_value ? 0 : 1)) /*@C02*/
__CPROVER_ensures(__CPROVER_return_value || (ERRS[NE - 1].t == PE_MACRO_EXTRACT_EXPECT &&
                  ERRS[NE - 1].line == TOKS[OLD(POS) < NT ? OLD(POS) : NT - 1].line &&
                  ERRS[NE - 1].file._id == TOKS[OLD(POS) < NT ? OLD(POS) : NT - 1].file._id)) /*@C02*/
/* reachability of the cases (each must FAIL) */
__CPROVER_ensures(__CPROVER_return_value) /*@CANARY*/
__CPROVER_ensures(!__CPROVER_return_value) /*@CANARY*/
__CPROVER_ensures(OLD(POS) < NT) /*@CANARY*/
__CPROVER_ensures(OLD(POS) >= NT) /*@CANARY*/;

void c_mcopy(void *p)
REQ_ES(p)
__CPROVER_assigns(g_es->output._n, __CPROVER_object_whole(OUTS))
__CPROVER_ensures(NO == OLD(NO) + 1 && OUTS[NO - 1].t == TOKS[CLAMPED].t && OUTS[NO - 1].line == TOKS[CLAMPED].line &&
                  OUTS[NO - 1].text._id == TOKS[CLAMPED].text._id && OUTS[NO - 1].file._id == TOKS[CLAMPED].file._id) /*@C02*/;

void c_merror(void *p, int t, long msg_id)
REQ_ES(p)
__CPROVER_assigns(g_es->encountered_errors._n, __CPROVER_object_whole(ERRS))
__CPROVER_ensures(NE == OLD(NE) + 1 && ERRS[NE - 1].t == t && ERRS[NE - 1].msg._id == msg_id && ERRS[NE - 1].line == TOKS[CLAMPED].line &&
                  ERRS[NE - 1].file._id == TOKS[CLAMPED].file._id) /*@C02*/;

int c_mstrToInt(void *p, long tok_id)
REQ_ES(p)
__CPROVER_requires(tok_id == g_num_id && g_num_val >= 0)
__CPROVER_assigns(g_es->encountered_errors._n, __CPROVER_object_whole(ERRS))
/* a priority / insertion index that does not fit the word is rejected with a RANGE error ... */
__CPROVER_ensures(g_num_val < INT_MAX || (NE == OLD(NE) + 1 && ERRS[NE - 1].t == PE_RANGE)) /*@C20,C02*/
/* ... every other one is converted exactly and silently */
__CPROVER_ensures(g_num_val >= INT_MAX || (__CPROVER_return_value == (int)g_num_val && NE == OLD(NE))) /*@C20*/
/* reachability of the cases (each must FAIL) */
__CPROVER_ensures(g_num_val < INT_MAX) /*@CANARY*/
__CPROVER_ensures(g_num_val >= INT_MAX) /*@CANARY*/;

/* C02 (no out-of-range access when a replacement is built): an insertion index `$N` is range-checked at extraction time with the
 * value strToInt gives, but the token keeps its text and apply_macros converts it again with strToIntSilent - the two
 * conversions must agree on EVERY digit string, in particular on those that do not fit the word (a RANGE error is recorded
 * for them, but the token stays an insertion) */
_Bool c_mconv_agree(void *p, long tok_id)
REQ_ES(p)
__CPROVER_requires(tok_id == g_num_id && g_num_val >= 0)
__CPROVER_assigns(g_es->encountered_errors._n, __CPROVER_object_whole(ERRS))
__CPROVER_ensures(__CPROVER_return_value == 1) /*@C02*/;
#ifdef SPEC_CHECKS_OFF
#pragma CPROVER check pop
#endif

unsigned long nondet_ulong(void);
int nondet_int(void);
unsigned nondet_uint(void);
void *malloc(unsigned long);
static es_t the_es;
static struct m_vec_Token the_tv;
static void *mk(unsigned long n, unsigned long sz) { void *r = malloc(n * sz); __CPROVER_assume(r != 0); return r; }
static void *setup(void)
{
  unsigned long tcap = nondet_ulong(), ecap = nondet_ulong(), ocap = nondet_ulong();
  __CPROVER_assume(tcap <= INT_MAX && ecap <= INT_MAX && ocap <= INT_MAX);
  the_tv._d = mk(tcap, sizeof(tok_t)); the_tv._cap = tcap; the_tv._n = nondet_ulong();
  the_es.tokens = &the_tv;
  the_es.encountered_errors._d = mk(ecap, sizeof(perr_t)); the_es.encountered_errors._cap = ecap; the_es.encountered_errors._n = nondet_ulong();
  the_es.output._d = mk(ocap, sizeof(tok_t)); the_es.output._cap = ocap; the_es.output._n = nondet_ulong();
  the_es.tok_pos = nondet_uint();
  g_es = &the_es; g_tv = &the_tv;
  g_num_id = nondet_long(); g_num_val = nondet_long(); g_num_uval = nondet_ulong();
  return &the_es;
}
#define CANARY __CPROVER_assert(0, "canary: end of harness reachable (requires satisfiable)")
int w_mstrToInt(void *es, long tok_id); int w_mlookahead(void *es); _Bool w_mmatch(void *es, int expect); void w_mcopy(void *es);
void w_merror(void *es, int t, long msg_id);
void h_mstrToInt(void) { void *p = setup(); w_mstrToInt(p, nondet_long()); CANARY; }
_Bool w_mconv_agree(void *es, long tok_id);
void h_mconv_agree(void) { void *p = setup(); w_mconv_agree(p, nondet_long()); CANARY; }
void h_mlookahead(void) { void *p = setup(); w_mlookahead(p); CANARY; }
void h_mmatch(void) { void *p = setup(); w_mmatch(p, nondet_int()); CANARY; }
void h_mcopy(void) { void *p = setup(); w_mcopy(p); CANARY; }
void h_merror(void) { void *p = setup(); w_merror(p, nondet_int(), nondet_long()); CANARY; }
