/* Shared predicates of the VM theory (DESIGN.md section 4).  C, CBMC contract syntax.
 * mirror_vm.h is GENERATED from /repo's headers on every run (tools/mirror.py). */
#ifndef VM_COMMON_H
#define VM_COMMON_H
#include "mirror_vm.h"

#define INT_MAX 2147483647
typedef struct m_VM vm_t;
typedef struct m_Activation act_t;

#ifdef LOOP_INV_CONTEXT
#define V(p) (p) /* loop invariants: p is the typed ghost pointer g_vm (struct casts are not parsable there) */
#else
#define V(p) ((vm_t *)(p))
#endif
#define N(p) (V(p)->code.code._n)
#define CODE(p) (V(p)->code.code._d)
#define IP(p) (V(p)->instruction_pointer)
#define M(p) (V(p)->data._n)
#define MCAP(p) (V(p)->data._cap)
#define DATA(p) (V(p)->data._d)
#define D(p) (V(p)->stack._n)
#define DCAP(p) (V(p)->stack._cap)
#define STK(p) (V(p)->stack._d)
#define A(p, k) (STK(p)[k])
#define TOP(p) (STK(p)[D(p) - 1])
#define TOP1(p) (STK(p)[D(p) - 2])
#define NSM(p) (V(p)->code.stack_maps._n)
#define STEPPING(p) (V(p)->stepping_mode_enabled)

#define OPC(p, i) (CODE(p)[i].op)
#define PAR(p, i, j) (CODE(p)[i].parameters[j])

/* ---- ghost state (never constrained beyond what a contract says) ---- */
extern unsigned long g_k; /* ghost activation index: clauses proved for it hold for every index */
extern unsigned long g_g; /* ghost data-word index */
extern unsigned long g_c; /* ghost code index */
extern int g_old;         /* pre-state value of data[g_g] (when g_g < m) */
extern int *g_fs;         /* static typing: frame size of the routine owning instruction i */
extern int *g_pend;       /* entry of the callee whose frame is being prepared at i, or -1 */
extern _Bool *g_isroot;   /* instruction i belongs to the root routine */
/* handles for loop invariants (C++ members cannot be named there, probe 6) */
extern unsigned long *g_data_n;
extern int **g_data_d;
extern int g_sel;         /* opcode selected by the harness */
extern vm_t *g_vm;        /* typed handle on the machine for loop invariants */

#define FS(i) (g_fs[i])
#define PEND(i) (g_pend[i])
#define ISROOT(i) (g_isroot[i])

/* ---- memory shape: everything the step may touch is a separate valid object.
 * A sequence of requires clauses (one giant conjunction makes symex explode). ---- */
#ifdef WITNESS_SMALL
/* only used to re-derive a small counterexample for native replay after a failure; never for a proof */
#define REQ_SMALL(p) __CPROVER_requires(N(p) <= 48 && MCAP(p) <= 48 && DCAP(p) <= 6)
#else
#define REQ_SMALL(p)
#endif
#define REQ_VM_SHAPE(p)                                                                   \
  __CPROVER_requires(__CPROVER_is_fresh(p, sizeof(vm_t)))                                 \
  __CPROVER_requires(N(p) >= 1 && N(p) <= INT_MAX && V(p)->code.code._cap == N(p))        \
  __CPROVER_requires(__CPROVER_is_fresh(CODE(p), N(p) * sizeof(struct m_Instruction)))    \
  __CPROVER_requires(M(p) <= MCAP(p) && MCAP(p) <= INT_MAX)                               \
  __CPROVER_requires(__CPROVER_is_fresh(DATA(p), MCAP(p) * sizeof(int)))                  \
  __CPROVER_requires(D(p) <= DCAP(p) && DCAP(p) <= INT_MAX)                               \
  __CPROVER_requires(__CPROVER_is_fresh(STK(p), DCAP(p) * sizeof(act_t)))                 \
  __CPROVER_requires(__CPROVER_is_fresh(g_fs, N(p) * sizeof(int)))                        \
  __CPROVER_requires(__CPROVER_is_fresh(g_pend, N(p) * sizeof(int)))                      \
  __CPROVER_requires(__CPROVER_is_fresh(g_isroot, N(p) * sizeof(_Bool)))                  \
  __CPROVER_requires(NSM(p) <= INT_MAX && IP(p) >= 0 && (unsigned long)IP(p) < N(p))            \
  REQ_SMALL(p)                                                                            \
  /* type invariant of bool (a bit-valid byte 2..255 is not a C++ bool) */                \
  __CPROVER_requires(*(unsigned char *)&STEPPING(p) <= 1)

/* ---- I2: frame k is well placed (contiguous, in call order, data ends with the top frame) ---- */
#define FR(p, k)                                                                          \
  ((k) >= D(p) ||                                                                         \
   (A(p, k).data_start >= 0 && A(p, k).seg_size >= 0 &&                                   \
    (long)A(p, k).data_start + (long)A(p, k).seg_size <= INT_MAX &&                       \
    ((k) != 0 || A(p, k).data_start == 0) &&                                              \
    ((k) + 1 != D(p) || M(p) == (unsigned long)((long)A(p, k).data_start + (long)A(p, k).seg_size)) && \
    ((k) + 1 >= D(p) || A(p, (k) + 1).data_start == A(p, k).data_start + A(p, k).seg_size)))

/* frame j has been entered by EXEC (its ret_addr is meaningful) */
#define ENTERED(p, j) ((j) + 1 < D(p) || PEND(IP(p)) == -1)

/* ---- I4 (link part): frame k+1 returns into frame k ---- */
#define LINK(p, k)                                                                        \
  ((k) >= D(p) || (k) + 1 >= D(p) ||                                                                     \
   (A(p, (k) + 1).ret_target >= 0 && A(p, (k) + 1).ret_target < A(p, k).seg_size &&       \
    (!ENTERED(p, (k) + 1) ||                                                              \
     (A(p, (k) + 1).ret_addr >= 1 && (unsigned long)A(p, (k) + 1).ret_addr < N(p) &&      \
      FS(A(p, (k) + 1).ret_addr) == A(p, k).seg_size && PEND(A(p, (k) + 1).ret_addr) == -1 && \
      ISROOT(A(p, (k) + 1).ret_addr) == ((k) == 0)))))

#define FRL(p, k) (FR(p, k) && LINK(p, k))

/* ---- I4 (current part): the running instruction is typed against the top frame(s) ---- */
#define CUR(p)                                                                            \
  (((D(p) == 0) == (IP(p) == 0)) &&                                                       \
   (D(p) == 0 ||                                                                          \
    (PEND(IP(p)) == -1                                                                    \
         ? (TOP(p).seg_size == FS(IP(p)) && ((D(p) == 1) == ISROOT(IP(p))))               \
         : (D(p) >= 2 && PEND(IP(p)) >= 1 && (unsigned long)PEND(IP(p)) < N(p) &&         \
            TOP(p).seg_size == FS(PEND(IP(p))) && TOP1(p).seg_size == FS(IP(p)) &&        \
            ((D(p) == 2) == ISROOT(IP(p)))))))

/* ---- I3 at the ghost word ---- */
#define NAT_G(p) (g_g >= M(p) || DATA(p)[g_g] >= 0)

/* the dynamic invariant, instantiated where the step needs it (top, top-1), plus the ghost instances */
#ifdef AS_CALLEE
#define REQ_GOLD(p)
#else
#define REQ_GOLD(p) __CPROVER_requires(g_g >= M(p) || g_old == DATA(p)[g_g]) /* ghost snapshot of data[g_g] */
#endif
#define REQ_INV(p)                                                                        \
  __CPROVER_requires(CUR(p))                                                              \
  __CPROVER_requires(D(p) != 0 || M(p) == 0)                                              \
  __CPROVER_requires(FRL(p, D(p) - 1))                                                    \
  __CPROVER_requires(D(p) < 2 || FRL(p, D(p) - 2))                                        \
  __CPROVER_requires(FRL(p, g_k))                                                         \
  __CPROVER_requires(NAT_G(p))                                                            \
  REQ_GOLD(p)
#define POST_CUR(p) (IP(p) >= 0 && (unsigned long)IP(p) < N(p) && CUR(p))
#define POST_FR(p) ((D(p) != 0 || M(p) == 0) && FRL(p, g_k))

/* ---- static typing helpers ---- */
#define IN_CODE(t) ((long)(t) >= 1 && (long)(t) < (long)N(p))
#define SAME_ROUTINE(i, t) (FS(t) == FS(i) && ISROOT(t) == ISROOT(i))
#define PLAIN_NEXT(p, i)                                                                  \
  ((unsigned long)(i) + 1 < N(p) && SAME_ROUTINE(i, (i) + 1) && PEND(i) == -1 && PEND((i) + 1) == -1)
#define REG_IN(i, r) ((r) >= 0 && (r) < FS(i))

#endif
