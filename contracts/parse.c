/* Contracts of the recursive-descent parser (Compiler/src/parse.cpp, tier C2): C02 (never reads past EOF, never
 * dereferences an absent node, errors only grow) and C04 (production conformance: a function records no error exactly
 * when the tokens it consumed spell its production; `match` records an error iff the kind differs).  Callees are
 * replaced by their contracts, so every dereference of a callee's result is checked against what the callee may return.
 * The pre-state is built by the harness (token array, cursor, AST): CBMC cannot dereference pointers that are only
 * assumed equal to an object, so the ghost handles are assigned, not assumed.  mirror_parse.h is GENERATED. */
#include "mirror_parse.h"
#define INT_MAX 2147483647
typedef struct m_Token tok_t;
typedef struct m_Node node_t;
typedef struct m_AST ast_t;
typedef struct m_SyntaxError serr_t;
/* model/include/vector, MODEL_VECTOR_INDEX_ITERATORS: iterator = (base, index) */
#pragma pack(push, 1)
struct m_tokit { tok_t *_base; unsigned long _i; };
struct m_ParseState { ast_t *a; struct m_tokit *pos; }; /* reference members are pointers */
#pragma pack(pop)

#ifdef SPEC_CHECKS_OFF
#pragma CPROVER check push
#pragma CPROVER check disable "pointer"
#pragma CPROVER check disable "bounds"
#pragma CPROVER check disable "signed-overflow"
#pragma CPROVER check disable "conversion"
#pragma CPROVER check disable "pointer-overflow"
#pragma CPROVER check disable "pointer-primitive"
#endif

/* ghost handles (assigned by the harness) */
ast_t *g_ast;
struct m_tokit *g_it;
tok_t *g_toks;
unsigned long g_n;
#define TOKI (g_it->_i)
#define LA (g_toks[TOKI].t)
#define NERR (g_ast->errors._n)
#define ECAP (g_ast->errors._cap)
#define NNODE (g_ast->all_allocated_nodes._n)
#define NCAP (g_ast->all_allocated_nodes._cap)
#define OLD(e) __CPROVER_old(e)
#define N_(r) ((node_t *)(r))

/* TOK: the token array ends in EOF and the cursor is inside it */
#define REQ_TOK(ps)                                                                       \
  __CPROVER_requires((struct m_ParseState *)(ps) != 0 && ((struct m_ParseState *)(ps))->a == g_ast && ((struct m_ParseState *)(ps))->pos == g_it) \
  __CPROVER_requires(g_it->_base == g_toks && g_n >= 1 && g_n <= INT_MAX && TOKI < g_n && g_toks[g_n - 1].t == TK_T_EOF) \
  __CPROVER_requires(NERR <= ECAP && ECAP <= INT_MAX && NNODE <= NCAP && NCAP <= INT_MAX)
/* what every parser function may touch */
#define ASSIGNS_PARSE                                                                     \
  __CPROVER_assigns(TOKI, g_ast->errors._n, __CPROVER_object_whole(g_ast->errors._d), g_ast->all_allocated_nodes._n, \
                    __CPROVER_object_whole(g_ast->all_allocated_nodes._d))
/* C02: the cursor only moves forward and never passes EOF; errors and nodes only grow */
#define ENS_MONO                                                                          \
  __CPROVER_ensures(TOKI < g_n && TOKI >= OLD(TOKI) && g_toks[g_n - 1].t == TK_T_EOF) /*@C02,C04*/ \
  __CPROVER_ensures(NERR >= OLD(NERR) && NERR <= ECAP && NNODE >= OLD(NNODE) && NNODE <= NCAP) /*@C02*/
#define FRESH_NODE(r) __CPROVER_is_fresh(r, sizeof(node_t))
#define FRESH_OR_NULL(r) ((r) == 0 || FRESH_NODE(r))
/* node r was made from token k: carries its position and text */
#define NODE_OF_TOK(r, k, ty)                                                             \
  (N_(r)->t == (ty) && N_(r)->line == g_toks[k].line && N_(r)->file._id == g_toks[k].file._id && N_(r)->tok._id == g_toks[k].text._id)

/* m is the MARK node of an END keyword: it wraps the NAME node made from the END token and carries that node's position */
#define MARK_OK(m)                                                                        \
  ((m) != 0 && N_(m)->t == NT_MARK && N_(m)->left != 0 && N_(N_(m)->left)->t == NT_NAME && N_(m)->line == N_(N_(m)->left)->line && \
   N_(m)->file._id == N_(N_(m)->left)->file._id)

/* ------------------------------------------------------------------ ParseState::lookahead / match / matchmk, AST::mk */
int c_lookahead(void *ps)
REQ_TOK(ps)
__CPROVER_assigns()
__CPROVER_ensures(__CPROVER_return_value == LA) /*@C04*/;

void c_match(void *ps, int t)
REQ_TOK(ps)
ASSIGNS_PARSE
ENS_MONO
/* an error is recorded exactly when the kind differs (C04: no recovery path swallows tokens silently) */
__CPROVER_ensures(NERR == OLD(NERR) + (OLD(LA) != t ? 1 : 0)) /*@C04,C02*/
__CPROVER_ensures(NNODE == OLD(NNODE)) /*@C02*/
/* a matching token is consumed (EOF is never passed) */
__CPROVER_ensures(OLD(LA) != t || TOKI == OLD(TOKI) + (t == TK_T_EOF ? 0 : 1)) /*@C04,C02*/
/* recovery: skip to the next ';' (and over it) or to EOF */
__CPROVER_ensures(OLD(LA) == t || LA == TK_T_EOF || (TOKI >= 1 && g_toks[TOKI - 1].t == TK_PROGSEP)) /*@C02,C04*/
#ifdef CANARY_match
/* reachability of the cases (each must FAIL); only in the group that ENFORCES this contract - where the contract replaces a
 * call its clauses are assumed, and a canary must never be assumed */
__CPROVER_ensures(OLD(LA) == t) /*@CANARY*/
__CPROVER_ensures(OLD(LA) != t) /*@CANARY*/
#endif
;

void *c_mk(void *a, int t, int line, long file_id, long tok_id, void *l, void *r)
__CPROVER_requires(a == (void *)g_ast && NNODE <= NCAP && NCAP <= INT_MAX)
__CPROVER_assigns(g_ast->all_allocated_nodes._n, __CPROVER_object_whole(g_ast->all_allocated_nodes._d))
/* every node is recorded for release (C02: ownership) */
__CPROVER_ensures(FRESH_NODE(__CPROVER_return_value)) /*@C02*/
__CPROVER_ensures(NNODE == OLD(NNODE) + 1 && g_ast->all_allocated_nodes._d[NNODE - 1] == __CPROVER_return_value) /*@C02*/
__CPROVER_ensures(N_(__CPROVER_return_value)->t == t && N_(__CPROVER_return_value)->line == line &&
                  N_(__CPROVER_return_value)->file._id == file_id && N_(__CPROVER_return_value)->tok._id == tok_id &&
                  N_(__CPROVER_return_value)->left == l && N_(__CPROVER_return_value)->right == r) /*@C02,C07*/;

void *c_matchmk(void *ps, int t, int n, void *l, void *r)
REQ_TOK(ps)
ASSIGNS_PARSE
ENS_MONO
/* the node is always made, from the token under the cursor (C07: END keywords keep their own line) */
__CPROVER_ensures(FRESH_NODE(__CPROVER_return_value)) /*@C02*/
__CPROVER_ensures(NODE_OF_TOK(__CPROVER_return_value, OLD(TOKI), n) && N_(__CPROVER_return_value)->left == l &&
                  N_(__CPROVER_return_value)->right == r) /*@C07,C04*/
__CPROVER_ensures(NERR == OLD(NERR) + (OLD(LA) != t ? 1 : 0)) /*@C04,C02*/
__CPROVER_ensures(OLD(LA) != t || TOKI == OLD(TOKI) + (t == TK_T_EOF ? 0 : 1)) /*@C04*/
__CPROVER_ensures(NNODE == OLD(NNODE) + 1) /*@C02*/
#ifdef CANARY_matchmk
/* reachability of the cases (each must FAIL); only in the group that ENFORCES this contract - where the contract replaces a
 * call its clauses are assumed, and a canary must never be assumed */
__CPROVER_ensures(OLD(LA) == t) /*@CANARY*/
__CPROVER_ensures(OLD(LA) != t) /*@CANARY*/
#endif
;

/* ------------------------------------------------------------------ VALUE -> id | int | run id with VARGS end */
#define IS_VALUE_START(k) ((k) == TK_ID || (k) == TK_INT || (k) == TK_RUN)
void *c_VALUE(void *ps)
REQ_TOK(ps)
ASSIGNS_PARSE
ENS_MONO
__CPROVER_ensures(FRESH_OR_NULL(__CPROVER_return_value)) /*@C02*/
/* no node <=> the lookahead starts no value; then exactly one error and nothing is consumed */
__CPROVER_ensures(IS_VALUE_START(OLD(LA)) == (__CPROVER_return_value != 0)) /*@C02,C04*/
__CPROVER_ensures(IS_VALUE_START(OLD(LA)) || (NERR == OLD(NERR) + 1 && TOKI == OLD(TOKI) && NNODE == OLD(NNODE))) /*@C04,C02*/
/* VALUE -> id | int */
__CPROVER_ensures((OLD(LA) != TK_ID && OLD(LA) != TK_INT) ||
                  (NERR == OLD(NERR) && TOKI == OLD(TOKI) + 1 &&
                   NODE_OF_TOK(__CPROVER_return_value, OLD(TOKI), OLD(LA) == TK_ID ? NT_NAME : NT_NUMBER))) /*@C04*/
/* VALUE -> run id with VARGS end : error free only if the tokens spell the production */
__CPROVER_ensures(OLD(LA) != TK_RUN || (N_(__CPROVER_return_value)->t == NT_CALL && N_(__CPROVER_return_value)->left != 0 && TOKI > OLD(TOKI))) /*@C04,C02*/
__CPROVER_ensures(OLD(LA) != TK_RUN || NERR != OLD(NERR) ||
                  (g_toks[OLD(TOKI) + 1].t == TK_ID && g_toks[OLD(TOKI) + 2].t == TK_WITH && TOKI >= OLD(TOKI) + 4 &&
                   g_toks[TOKI - 1].t == TK_END)) /*@C04*/
#ifdef CANARY_VALUE
/* reachability of the cases (each must FAIL); only in the group that ENFORCES this contract - where the contract replaces a
 * call its clauses are assumed, and a canary must never be assumed */
__CPROVER_ensures(OLD(LA) != TK_ID) /*@CANARY*/
__CPROVER_ensures(OLD(LA) != TK_INT) /*@CANARY*/
__CPROVER_ensures(OLD(LA) != TK_RUN) /*@CANARY*/
__CPROVER_ensures(IS_VALUE_START(OLD(LA))) /*@CANARY*/
__CPROVER_ensures(OLD(LA) != TK_RUN || NERR != OLD(NERR)) /*@CANARY*/
#endif
;

/* ------------------------------------------------------------------ VARGS -> eps | VALUE MVARGS ; MVARGS -> eps | , VALUE MVARGS */
void *c_VARGS(void *ps)
REQ_TOK(ps)
ASSIGNS_PARSE
ENS_MONO
__CPROVER_ensures(FRESH_OR_NULL(__CPROVER_return_value)) /*@C02*/
__CPROVER_ensures(IS_VALUE_START(OLD(LA)) == (__CPROVER_return_value != 0)) /*@C04,C02*/
__CPROVER_ensures(IS_VALUE_START(OLD(LA)) || (NERR == OLD(NERR) && TOKI == OLD(TOKI))) /*@C04*/
__CPROVER_ensures(!IS_VALUE_START(OLD(LA)) || (N_(__CPROVER_return_value)->t == NT_SPLIT && N_(__CPROVER_return_value)->left != 0 && TOKI > OLD(TOKI))) /*@C04,C02*/
#ifdef CANARY_VARGS
/* reachability of the cases (each must FAIL); only in the group that ENFORCES this contract - where the contract replaces a
 * call its clauses are assumed, and a canary must never be assumed */
__CPROVER_ensures(IS_VALUE_START(OLD(LA))) /*@CANARY*/
__CPROVER_ensures(!IS_VALUE_START(OLD(LA))) /*@CANARY*/
#endif
;

void *c_MVARGS(void *ps)
REQ_TOK(ps)
ASSIGNS_PARSE
ENS_MONO
__CPROVER_ensures(FRESH_OR_NULL(__CPROVER_return_value)) /*@C02*/
/* MVARGS -> eps */
__CPROVER_ensures(OLD(LA) == TK_ARGSEP || (__CPROVER_return_value == 0 && NERR == OLD(NERR) && TOKI == OLD(TOKI))) /*@C04*/
/* MVARGS -> , VALUE MVARGS : a missing value after the comma is an error and ends the list */
__CPROVER_ensures(OLD(LA) != TK_ARGSEP || TOKI > OLD(TOKI)) /*@C04*/
__CPROVER_ensures(OLD(LA) != TK_ARGSEP || __CPROVER_return_value != 0 || NERR > OLD(NERR)) /*@C04,C02*/
__CPROVER_ensures(__CPROVER_return_value == 0 || (N_(__CPROVER_return_value)->t == NT_SPLIT && N_(__CPROVER_return_value)->left != 0)) /*@C02*/
;

/* ------------------------------------------------------------------ PORTS -> eps | in ARGS OPORTS ; OPORTS -> eps | out id */
void *c_ARGS(void *ps)
REQ_TOK(ps)
ASSIGNS_PARSE
ENS_MONO
__CPROVER_ensures(FRESH_NODE(__CPROVER_return_value)) /*@C02*/
__CPROVER_ensures(N_(__CPROVER_return_value)->t == NT_SPLIT && N_(__CPROVER_return_value)->left != 0) /*@C02,C04*/
/* ARGS -> id MARGS */
__CPROVER_ensures(NERR != OLD(NERR) || (OLD(LA) == TK_ID && TOKI > OLD(TOKI))) /*@C04*/
#ifdef CANARY_ARGS
/* reachability of the cases (each must FAIL); only in the group that ENFORCES this contract - where the contract replaces a
 * call its clauses are assumed, and a canary must never be assumed */
__CPROVER_ensures(NERR != OLD(NERR)) /*@CANARY*/
__CPROVER_ensures(NERR == OLD(NERR)) /*@CANARY*/
#endif
;

void *c_MARGS(void *ps)
REQ_TOK(ps)
ASSIGNS_PARSE
ENS_MONO
__CPROVER_ensures(FRESH_OR_NULL(__CPROVER_return_value)) /*@C02*/
__CPROVER_ensures(OLD(LA) == TK_ARGSEP || (__CPROVER_return_value == 0 && NERR == OLD(NERR) && TOKI == OLD(TOKI))) /*@C04*/
__CPROVER_ensures(OLD(LA) != TK_ARGSEP || (__CPROVER_return_value != 0 && TOKI > OLD(TOKI))) /*@C04,C02*/
#ifdef CANARY_MARGS
/* reachability of the cases (each must FAIL); only in the group that ENFORCES this contract - where the contract replaces a
 * call its clauses are assumed, and a canary must never be assumed */
__CPROVER_ensures(OLD(LA) == TK_ARGSEP) /*@CANARY*/
__CPROVER_ensures(OLD(LA) != TK_ARGSEP) /*@CANARY*/
#endif
;

void *c_OPORTS(void *ps)
REQ_TOK(ps)
ASSIGNS_PARSE
ENS_MONO
__CPROVER_ensures(FRESH_OR_NULL(__CPROVER_return_value)) /*@C02*/
__CPROVER_ensures(OLD(LA) == TK_OUT || (__CPROVER_return_value == 0 && NERR == OLD(NERR) && TOKI == OLD(TOKI))) /*@C04*/
__CPROVER_ensures(OLD(LA) != TK_OUT || (__CPROVER_return_value != 0 && N_(__CPROVER_return_value)->t == NT_NAME &&
                  (NERR != OLD(NERR) || (g_toks[OLD(TOKI) + 1].t == TK_ID && TOKI == OLD(TOKI) + 2)))) /*@C04,C02*/
#ifdef CANARY_OPORTS
/* reachability of the cases (each must FAIL); only in the group that ENFORCES this contract - where the contract replaces a
 * call its clauses are assumed, and a canary must never be assumed */
__CPROVER_ensures(OLD(LA) == TK_OUT) /*@CANARY*/
__CPROVER_ensures(OLD(LA) != TK_OUT) /*@CANARY*/
__CPROVER_ensures(OLD(LA) != TK_OUT || NERR != OLD(NERR)) /*@CANARY*/
#endif
;

void *c_PORTS(void *ps)
REQ_TOK(ps)
ASSIGNS_PARSE
ENS_MONO
__CPROVER_ensures(FRESH_OR_NULL(__CPROVER_return_value)) /*@C02*/
/* PORTS -> eps: NO node (callers must cope: C02) */
__CPROVER_ensures(OLD(LA) == TK_IN || (__CPROVER_return_value == 0 && NERR == OLD(NERR) && TOKI == OLD(TOKI))) /*@C04,C02*/
__CPROVER_ensures(OLD(LA) != TK_IN || (__CPROVER_return_value != 0 && N_(__CPROVER_return_value)->t == NT_SPLIT &&
                  N_(__CPROVER_return_value)->left != 0 && TOKI > OLD(TOKI))) /*@C04,C02*/
#ifdef CANARY_PORTS
/* reachability of the cases (each must FAIL); only in the group that ENFORCES this contract - where the contract replaces a
 * call its clauses are assumed, and a canary must never be assumed */
__CPROVER_ensures(OLD(LA) == TK_IN) /*@CANARY*/
__CPROVER_ensures(OLD(LA) != TK_IN) /*@CANARY*/
#endif
;

/* ------------------------------------------------------------------ MOREP -> eps | ; P */
void *c_MOREP(void *ps)
REQ_TOK(ps)
ASSIGNS_PARSE
ENS_MONO
__CPROVER_ensures(FRESH_OR_NULL(__CPROVER_return_value)) /*@C02*/
__CPROVER_ensures(OLD(LA) == TK_PROGSEP || (__CPROVER_return_value == 0 && NERR == OLD(NERR) && TOKI == OLD(TOKI))) /*@C04*/
__CPROVER_ensures(OLD(LA) != TK_PROGSEP || TOKI > OLD(TOKI)) /*@C04*/
/* an excess ';' before END / EOF is an error */
__CPROVER_ensures(OLD(LA) != TK_PROGSEP || (g_toks[OLD(TOKI) + 1].t != TK_END && g_toks[OLD(TOKI) + 1].t != TK_T_EOF) || NERR > OLD(NERR)) /*@C04*/
#ifdef CANARY_MOREP
/* reachability of the cases (each must FAIL); only in the group that ENFORCES this contract - where the contract replaces a
 * call its clauses are assumed, and a canary must never be assumed */
__CPROVER_ensures(OLD(LA) == TK_PROGSEP) /*@CANARY*/
__CPROVER_ensures(OLD(LA) != TK_PROGSEP) /*@CANARY*/
__CPROVER_ensures(OLD(LA) != TK_PROGSEP || NERR > OLD(NERR)) /*@CANARY*/
#endif
;

/* ------------------------------------------------------------------ P, S, expected_end_or_semicolon: safety and monotonicity
 * (their full production conformance is not under contract) */
void *c_P(void *ps)
REQ_TOK(ps)
ASSIGNS_PARSE
ENS_MONO
__CPROVER_ensures(FRESH_OR_NULL(__CPROVER_return_value)) /*@C02*/
/* P has no empty production: no node only with an error */
__CPROVER_ensures(__CPROVER_return_value != 0 || NERR > OLD(NERR)) /*@C04,C02*/
/* C07: the END keyword of a LOOP / WHILE is kept as a MARK whose position is that of the END token itself
 * (the NAME node made from it by matchmk), so the END line gets its own breakpoint site */
__CPROVER_ensures((OLD(LA) != TK_LOOP && OLD(LA) != TK_WHILE) ||
                  (__CPROVER_return_value != 0 && N_(__CPROVER_return_value)->t == NT_SPLIT && N_(__CPROVER_return_value)->left != 0 &&
                   N_(N_(__CPROVER_return_value)->left)->t == NT_SPLIT && N_(N_(__CPROVER_return_value)->left)->left != 0 &&
                   N_(N_(N_(__CPROVER_return_value)->left)->left)->t == (OLD(LA) == TK_LOOP ? NT_LOOP : NT_WHILE) &&
                   MARK_OK(N_(N_(__CPROVER_return_value)->left)->right))) /*@C07,C04,C08*/
;

void *c_S(void *ps)
REQ_TOK(ps)
ASSIGNS_PARSE
ENS_MONO
__CPROVER_ensures(FRESH_OR_NULL(__CPROVER_return_value)) /*@C02*/
__CPROVER_ensures(__CPROVER_return_value != 0 || NERR > OLD(NERR)) /*@C04,C02*/
/* S -> program id PORTS do P end S : tree(name, ports-or-NONE) / tree(body, MARK of the END token) */
__CPROVER_ensures(OLD(LA) != TK_PROGRAM ||
                  (__CPROVER_return_value != 0 && N_(__CPROVER_return_value)->t == NT_SPLIT && N_(__CPROVER_return_value)->left != 0 &&
                   N_(N_(__CPROVER_return_value)->left)->t == NT_PROGRAM && N_(N_(__CPROVER_return_value)->left)->left != 0 &&
                   N_(N_(N_(__CPROVER_return_value)->left)->left)->left != 0 &&
                   N_(N_(N_(N_(__CPROVER_return_value)->left)->left)->left)->t == NT_NAME &&
                   N_(N_(__CPROVER_return_value)->left)->right != 0 && MARK_OK(N_(N_(N_(__CPROVER_return_value)->left)->right)->right))) /*@C07,C04,C02*/
;

void c_expected_end_or_semicolon(void *ps)
REQ_TOK(ps)
ASSIGNS_PARSE
ENS_MONO
/* returns only at a token that can follow a statement sequence */
__CPROVER_ensures(LA != TK_ID && LA != TK_LOOP && LA != TK_WHILE && LA != TK_GOTO && LA != TK_IF && LA != TK_STOP && LA != TK_PROGRAM &&
                  LA != TK_PROGSEP) /*@C04*/;

#ifdef SPEC_CHECKS_OFF
#pragma CPROVER check pop
#endif

/* ------------------------------------------------------------------ harness: builds the pre-state */
unsigned long nondet_ulong(void);
int nondet_int(void);
long nondet_long(void);
void *nondet_ptr(void);
void *malloc(unsigned long);
static struct m_tokit the_it;
static ast_t the_ast;
static struct m_ParseState the_ps;
static void *setup(void)
{
  g_n = nondet_ulong();
  __CPROVER_assume(g_n >= 1 && g_n <= INT_MAX);
  g_toks = malloc(g_n * sizeof(tok_t));
  __CPROVER_assume(g_toks != 0); /* T3 */
  the_it._base = g_toks;
  the_it._i = nondet_ulong();
  g_it = &the_it;
  unsigned long ecap = nondet_ulong(), ncap = nondet_ulong();
  __CPROVER_assume(ecap <= INT_MAX && ncap <= INT_MAX);
  the_ast.errors._d = malloc(ecap * sizeof(serr_t));
  __CPROVER_assume(the_ast.errors._d != 0);
  the_ast.errors._cap = ecap;
  the_ast.errors._n = nondet_ulong();
  the_ast.all_allocated_nodes._d = malloc(ncap * sizeof(void *));
  __CPROVER_assume(the_ast.all_allocated_nodes._d != 0);
  the_ast.all_allocated_nodes._cap = ncap;
  the_ast.all_allocated_nodes._n = nondet_ulong();
  g_ast = &the_ast;
  the_ps.a = &the_ast;
  the_ps.pos = &the_it;
  return &the_ps;
}
#define CANARY __CPROVER_assert(0, "canary: end of harness reachable (requires satisfiable)")
int w_lookahead(void *ps);
void w_match(void *ps, int t);
void *w_matchmk(void *ps, int t, int n, void *l, void *r);
void *w_mk(void *a, int t, int line, long file_id, long tok_id, void *l, void *r);
void *w_S(void *ps); void *w_PORTS(void *ps); void *w_OPORTS(void *ps); void *w_ARGS(void *ps); void *w_MARGS(void *ps);
void w_expected_end_or_semicolon(void *ps); void *w_P(void *ps); void *w_MOREP(void *ps); void *w_VALUE(void *ps);
void *w_VARGS(void *ps); void *w_MVARGS(void *ps);
void *w_S_rec(void *ps); void *w_P_rec(void *ps); void *w_MVARGS_rec(void *ps); void *w_ARGS_rec(void *ps); void w_expected_end_or_semicolon_rec(void *ps);
void h_lookahead(void) { void *ps = setup(); w_lookahead(ps); CANARY; }
void h_match(void) { void *ps = setup(); w_match(ps, nondet_int()); CANARY; }
void h_matchmk(void) { void *ps = setup(); w_matchmk(ps, nondet_int(), nondet_int(), nondet_ptr(), nondet_ptr()); CANARY; }
void h_mk(void) { setup(); w_mk(g_ast, nondet_int(), nondet_int(), nondet_long(), nondet_long(), nondet_ptr(), nondet_ptr()); CANARY; }
#define H(F) void h_##F(void) { void *ps = setup(); w_##F(ps); CANARY; }
H(S) H(PORTS) H(OPORTS) H(ARGS) H(MARGS) H(expected_end_or_semicolon) H(P) H(MOREP) H(VALUE) H(VARGS) H(MVARGS)
