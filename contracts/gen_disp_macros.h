/* macros of the lowering contracts (shared by contracts/gen_disp.c and the loop-invariant templates) */
#ifndef GEN_DISP_MACROS_H
#define GEN_DISP_MACROS_H
#include "gen_common.h"
extern fgs_t *g_top;
extern unsigned long g_r, g_lab, g_bp;
extern int gr_temp, gr_use;
extern unsigned long g_cfree;
extern int gb_loc, gb_op, gb_lab, gb_p1, gb_p2, gb_tgt;
#define PN(q) ((unsigned long)(q))
extern long gr_name;
/* ghost handles, assigned by the harness */

#define REGS (g_top->register_state._d)
#define NREG (g_top->register_state._n)
#define RCAP (g_top->register_state._cap)
#define GNC (g_gs->out.code._n)
#define GCODE (g_gs->out.code._d)
#define GOP(i) (GCODE[i].op)
#define GPAR(i, j) (GCODE[i].parameters[j])
#define NLAB (g_gs->labels._n)
#define LABS (g_gs->labels._d)
#define NBP (g_gs->backpatching_todo._n)
#define BPS (g_gs->backpatching_todo._d)
#define GNERR (g_gs->errors._n)
#define NSYM (g_gs->symbols._n)
#define LOOPS (g_gs->loops)
#define NMARK (g_top->marks._n)
#define MARKS (g_top->marks._d)

/* the generator state is well shaped: a routine is open, sizes within capacity (T3) */
#define REQ_GS(p)                                                                         \
  __CPROVER_requires((void *)(p) == (void *)g_gs && NSYM >= 1 && g_top == &g_gs->symbols._d[NSYM - 1]) \
  __CPROVER_requires(NREG <= RCAP && RCAP <= INT_MAX && GNC <= g_gs->out.code._cap && g_gs->out.code._cap <= INT_MAX) \
  __CPROVER_requires(NLAB <= g_gs->labels._cap && g_gs->labels._cap <= INT_MAX && NBP <= g_gs->backpatching_todo._cap && \
                     g_gs->backpatching_todo._cap <= INT_MAX && GNERR <= g_gs->errors._cap && g_gs->errors._cap <= INT_MAX && \
                     NMARK <= g_top->marks._cap)
/* what a traversal function may touch */
#define ASSIGNS_GS                                                                        \
  __CPROVER_assigns(g_gs->out.code._n, __CPROVER_object_whole(GCODE), g_gs->labels._n, __CPROVER_object_whole(LABS), \
                    g_gs->backpatching_todo._n, __CPROVER_object_whole(BPS), g_gs->errors._n, __CPROVER_object_whole(g_gs->errors._d), \
                    g_top->register_state._n, __CPROVER_object_whole(REGS), g_top->marks._n, __CPROVER_object_whole(MARKS), g_gs->loops, \
                    MODEL_MAP_GHOSTS)
/* the same frame for contracts that are only used at call sites: the ghost witnesses of the container model are left
 * alone, they belong to the lookups of the function under contract */
#define ASSIGNS_GS_CALLEE                                                                        \
  __CPROVER_assigns(g_gs->out.code._n, __CPROVER_object_whole(GCODE), g_gs->labels._n, __CPROVER_object_whole(LABS), \
                    g_gs->backpatching_todo._n, __CPROVER_object_whole(BPS), g_gs->errors._n, __CPROVER_object_whole(g_gs->errors._d), \
                    g_top->register_state._n, __CPROVER_object_whole(REGS), g_top->marks._n, __CPROVER_object_whole(MARKS), g_gs->loops)
/* MONO: emitted code is only appended to, labels / pending jumps / errors / registers only grow, the routine stays open */
#define ENS_MONO                                                                          \
  __CPROVER_ensures(GNC >= OLD(GNC) && GNC <= g_gs->out.code._cap && NLAB >= OLD(NLAB) && NLAB <= g_gs->labels._cap && NBP >= OLD(NBP) && \
                    NBP <= g_gs->backpatching_todo._cap && GNERR >= OLD(GNERR) && GNERR <= g_gs->errors._cap && NREG >= OLD(NREG) && \
                    NREG <= RCAP && NMARK >= OLD(NMARK) && NMARK <= g_top->marks._cap && NSYM == OLD(NSYM) && LOOPS >= OLD(LOOPS)) /*@C01,C03*/ \
  __CPROVER_ensures(g_c >= OLD(GNC) || (GOP(g_c) == OLD(GOP(g_c)) && GPAR(g_c, 0) == OLD(GPAR(g_c, 0)) && GPAR(g_c, 1) == OLD(GPAR(g_c, 1)) && \
                                        GPAR(g_c, 2) == OLD(GPAR(g_c, 2)))) /*@C01*/
/* MONO of dispatchVoid: on a PROGRAM node it takes back the stop site that ends the code (if any) before generating the program, so
 * of the code that existed before, exactly one instruction may differ afterwards: a POTENTIAL_BREAK at the very end */
#define ENS_MONO_V                                                                        \
  __CPROVER_ensures(GNC >= OLD(GNC) && GNC <= g_gs->out.code._cap && NLAB >= OLD(NLAB) && NLAB <= g_gs->labels._cap && NBP >= OLD(NBP) && \
                    NBP <= g_gs->backpatching_todo._cap && GNERR >= OLD(GNERR) && GNERR <= g_gs->errors._cap && NREG >= OLD(NREG) && \
                    NREG <= RCAP && NMARK >= OLD(NMARK) && NMARK <= g_top->marks._cap && NSYM == OLD(NSYM) && LOOPS >= OLD(LOOPS)) /*@C01,C03*/ \
  __CPROVER_ensures(g_c >= OLD(GNC) || (GOP(g_c) == OLD(GOP(g_c)) && GPAR(g_c, 0) == OLD(GPAR(g_c, 0)) && GPAR(g_c, 1) == OLD(GPAR(g_c, 1)) && \
                                        GPAR(g_c, 2) == OLD(GPAR(g_c, 2))) || (g_c + 1 == OLD(GNC) && OLD(GOP(g_c)) == OP_POTENTIAL_BREAK)) /*@C01*/
#define REQ_GC
/* instruction at i is (op, a, b, c) */
#define INS3(i, o, a, b, c) (GOP(i) == (o) && GPAR(i, 0) == (a) && GPAR(i, 1) == (b) && GPAR(i, 2) == (c))
#define INS2(i, o, a, b) (GOP(i) == (o) && GPAR(i, 0) == (a) && GPAR(i, 1) == (b))
#define INS1(i, o, a) (GOP(i) == (o) && GPAR(i, 0) == (a))
#define NODE_OK(c) __CPROVER_is_fresh(c, sizeof(node_t))

#endif
