/* Parser driver in the middle of Theo::parse (Compiler/src/parse.cpp): `a.root = S(ps);` and the trailing-input loop.
 * C04: input left over after the first statement sequence is an error (a source with excess input is never accepted), C02: the driver ends
 * with the cursor on the EOF token (it never runs past the token sequence and it terminates: every round consumes a token), the root of the tree
 * is what the first S call returned, errors and nodes only grow.  S, lookahead and match are used through contracts (S through a weakening
 * of c_S - the monotonicity clauses proved in parse_S - that records its calls); the loop is closed by a loop contract (no bound on the tokens).
 * Precondition (not proved here: the macro passes are outside): the expanded token sequence ends in EOF. */
#include "parse.c"
#pragma pack(push, 1)
typedef struct { tok_t *_d; unsigned long _n; unsigned long _cap; } tvec_t;
#pragma pack(pop)
tvec_t *g_ts;
_Bool g_s_called, g_s_again; unsigned long g_s1_end; void *g_s1_ret;      /* ghost call record of S: called at all / more than once; first call's end and result */
unsigned long g_end;                                        /* ghost: cursor position when the driver is done */
unsigned long g_nerr0;
void __verif_drv_state(void *it) { g_it = it; }
void __verif_drv_end(void) { g_end = g_it->_i; }

void *c_S_drv(void *ps)
REQ_TOK(ps)
__CPROVER_assigns(TOKI, g_ast->errors._n, __CPROVER_object_whole(g_ast->errors._d), g_ast->all_allocated_nodes._n,
                  __CPROVER_object_whole(g_ast->all_allocated_nodes._d), g_s_called, g_s_again, g_s1_end, g_s1_ret)
ENS_MONO
__CPROVER_ensures(g_s_called && g_s_again == (OLD(g_s_called) ? 1 : 0))
__CPROVER_ensures(OLD(g_s_called) || (g_s1_end == TOKI && g_s1_ret == __CPROVER_return_value))
__CPROVER_ensures(!OLD(g_s_called) || (g_s1_end == OLD(g_s1_end) && g_s1_ret == OLD(g_s1_ret)));

void c_parse_driver(void *ts, void *a)
__CPROVER_requires(ts == (void *)g_ts && a == (void *)g_ast && g_ts->_d == g_toks && g_ts->_n == g_n && g_n >= 1 && g_n <= INT_MAX && g_toks[g_n - 1].t == TK_T_EOF)
__CPROVER_requires(NERR <= ECAP && ECAP <= INT_MAX && NNODE <= NCAP && NCAP <= INT_MAX && g_ast->errors._d != 0 && !g_s_called && !g_s_again && NERR == g_nerr0)
__CPROVER_assigns(g_it, g_end, g_ast->root, g_ast->errors._n, __CPROVER_object_whole(g_ast->errors._d), g_ast->all_allocated_nodes._n,
                  __CPROVER_object_whole(g_ast->all_allocated_nodes._d), g_s_called, g_s_again, g_s1_end, g_s1_ret)
/* C02: the driver ends on the EOF token, inside the sequence */
__CPROVER_ensures(g_end < g_n && g_toks[g_end].t == TK_T_EOF) /*@C02,C04*/
/* the root of the tree is the result of the first S call */
__CPROVER_ensures(g_s_called && g_ast->root == g_s1_ret) /*@C02,C04*/
/* C04: input left over after the first statement sequence is an error */
__CPROVER_ensures(g_toks[g_s1_end].t == TK_T_EOF || NERR > g_nerr0) /*@C04,C02*/
__CPROVER_ensures(NERR >= g_nerr0 && NERR <= ECAP && NNODE >= OLD(NNODE) && NNODE <= NCAP) /*@C02*/
/* reachability (must FAIL) */
__CPROVER_ensures(!g_s_again) /*@CANARY*/
__CPROVER_ensures(g_toks[g_s1_end].t != TK_T_EOF) /*@CANARY*/
__CPROVER_ensures(g_s_again || g_toks[g_s1_end].t == TK_T_EOF) /*@CANARY*/;

static tvec_t the_ts;
void w_parse_driver(void *ts, void *a);
void h_parse_driver(void)
{
  setup();
  the_ts._d = g_toks; the_ts._n = g_n; the_ts._cap = g_n; g_ts = &the_ts;
  g_s_called = 0; g_s_again = 0; g_nerr0 = the_ast.errors._n;
  w_parse_driver(&the_ts, &the_ast);
  CANARY;
}
