/* Theo::parse (Compiler/src/parse.cpp), the statements between the calls of Theo::scan and Theo::extract_macros: the file requests of a
 * compilation are collected from the scanner's errors.  C15: exactly the requests of the FILE_NOT_FOUND and MAIN_FILE_NOT_FOUND errors
 * are collected, in the order of the errors, nothing else, and the scanner's result is left as it is.
 * BOUNDED: at most 3 scanner errors (the specification is written out per position; the loop is unwound completely). */
#include "mirror_scan.h"
typedef struct m_ScanResult res_t;
typedef struct m_ParseError perr_t;
#pragma pack(push, 1)
typedef struct { struct m_string *_d; unsigned long _n; unsigned long _cap; } svec_t;
#pragma pack(pop)
res_t *g_sr; svec_t *g_out; perr_t *g_errs;
#define NE (g_sr->errors._n)
#define M(i) (NE > (i) && (g_errs[i].t == PE_FILE_NOT_FOUND || g_errs[i].t == PE_MAIN_FILE_NOT_FOUND))
#define C1 (M(0) ? 1UL : 0UL)
#define C2 (C1 + (M(1) ? 1UL : 0UL))
#define C3 (C2 + (M(2) ? 1UL : 0UL))

void c_parse_requests(void *sr, void *out)
__CPROVER_requires(sr == (void *)g_sr && out == (void *)g_out && g_sr->errors._d == g_errs && NE <= 3 && g_sr->errors._cap == 3)
/* what Theo::scan guarantees about its errors (c_scan, ERR_SHAPE, proved at an arbitrary index in scanB_scan; here per position): an error
 * that is not about an absent file carries the default (empty) request.  A collection that relies on it is therefore not reported. */
#define SHAPE(i) (NE <= (i) || g_errs[i].t == PE_FILE_NOT_FOUND || g_errs[i].t == PE_MAIN_FILE_NOT_FOUND || g_errs[i].file_request._id == 0)
__CPROVER_requires(SHAPE(0) && SHAPE(1) && SHAPE(2))
__CPROVER_assigns(__CPROVER_object_whole(g_out))
/* as many requests as there are errors about absent files */
__CPROVER_ensures(g_out->_n == C3) /*@C15,C02*/
/* each of them is the request of its error, in the order of the errors */
__CPROVER_ensures(!M(0) || g_out->_d[0]._id == g_errs[0].file_request._id) /*@C15*/
__CPROVER_ensures(!M(1) || g_out->_d[C1]._id == g_errs[1].file_request._id) /*@C15*/
__CPROVER_ensures(!M(2) || g_out->_d[C2]._id == g_errs[2].file_request._id) /*@C15*/
/* reachability (must FAIL) */
__CPROVER_ensures(!(NE == 3 && M(0) && !M(1) && M(2))) /*@CANARY*/
__CPROVER_ensures(!(NE == 2 && g_errs[0].t == PE_MAIN_FILE_NOT_FOUND && g_errs[1].t == PE_FILE_NOT_FOUND)) /*@CANARY*/;

unsigned long nondet_ulong(void);
static perr_t the_errs[3];
static res_t the_sr;
static svec_t the_out;
void w_parse_requests(void *sr, void *out);
void h_parse_requests(void)
{
  g_sr = &the_sr; g_out = &the_out; g_errs = the_errs;
  __CPROVER_havoc_object(the_errs);
  the_sr.errors._d = the_errs; the_sr.errors._n = nondet_ulong(); the_sr.errors._cap = 3;
  w_parse_requests(&the_sr, &the_out);
  __CPROVER_assert(0, "canary: end of harness reachable (requires satisfiable)");
}
