/* Theo::compile (Compiler/src/compiler.cpp): parse, then gen on the parsed tree, then release the tree, and hand the parser's
 * list of missing files out as the file requests (C15), leaving gen's verdict and errors as they are (C02).
 * parse, gen and AST::clear are used through contracts that record their calls. */
#include "mirror_comp.h"
typedef struct m_CodegenResult cres_t;
typedef struct m_ParseResult pres_t;
cres_t *g_out;
void *g_files;
long g_main;
int g_seq, g_parse_seq, g_gen_seq, g_clear_seq;     /* order of the calls (0 = not called) */
void *g_parse_files; long g_parse_main;
pres_t *g_pr;                                         /* where parse put its result */
void *g_gen_ast, *g_clear_ast;
void *g_mf_d; unsigned long g_mf_n;                   /* the missing-files list parse returned */
_Bool g_gen_ok; unsigned long g_gen_nerr; void *g_gen_errd; unsigned long g_gen_nc;  /* what gen returned */
#define OLD(e) __CPROVER_old(e)
void c_parse_c(void *files, long main_id, void *out)
__CPROVER_requires(1)
__CPROVER_assigns(__CPROVER_object_whole(out), g_seq, g_parse_seq, g_parse_files, g_parse_main, g_pr, g_mf_d, g_mf_n)
__CPROVER_ensures(g_seq == OLD(g_seq) + 1 && g_parse_seq == g_seq && g_parse_files == files && g_parse_main == main_id && (void *)g_pr == out &&
                  g_mf_d == (void *)((pres_t *)out)->missing_files._d && g_mf_n == ((pres_t *)out)->missing_files._n);
void c_gen_c(void *ast, void *out)
__CPROVER_requires(1)
__CPROVER_assigns(__CPROVER_object_whole(out), g_seq, g_gen_seq, g_gen_ast, g_gen_ok, g_gen_nerr, g_gen_errd, g_gen_nc)
__CPROVER_ensures(g_seq == OLD(g_seq) + 1 && g_gen_seq == g_seq && g_gen_ast == ast && g_gen_ok == ((cres_t *)out)->generated_correctly &&
                  g_gen_nerr == ((cres_t *)out)->errors._n && g_gen_errd == (void *)((cres_t *)out)->errors._d && g_gen_nc == ((cres_t *)out)->code.code._n);
void c_ast_clear(void *ast)
__CPROVER_requires(1)
__CPROVER_assigns(g_seq, g_clear_seq, g_clear_ast)
__CPROVER_ensures(g_seq == OLD(g_seq) + 1 && g_clear_seq == g_seq && g_clear_ast == ast);

void c_compile(void *files, long main_id, void *out)
__CPROVER_requires((void *)out == (void *)g_out && g_seq == 0 && g_parse_seq == 0 && g_gen_seq == 0 && g_clear_seq == 0)
__CPROVER_assigns(__CPROVER_object_whole(g_out), g_seq, g_parse_seq, g_parse_files, g_parse_main, g_pr, g_mf_d, g_mf_n, g_gen_seq, g_gen_ast, g_gen_ok, g_gen_nerr,
                  g_gen_errd, g_gen_nc, g_clear_seq, g_clear_ast)
/* the given files and main name are parsed, the tree parse returned is generated, and only then released: once each */
__CPROVER_ensures(g_seq == 3 && g_parse_seq == 1 && g_gen_seq == 2 && g_clear_seq == 3 && g_parse_main == main_id) /*@C02,C15*/
__CPROVER_ensures(g_gen_ast == (void *)&g_pr->a && g_clear_ast == (void *)&g_pr->a) /*@C02*/
/* C15: the file requests of the compilation are exactly the parser's list of missing files */
__CPROVER_ensures((void *)g_out->file_requests._d == g_mf_d && g_out->file_requests._n == g_mf_n) /*@C15,C02*/
/* C02: verdict, errors and program are gen's */
__CPROVER_ensures(g_out->generated_correctly == g_gen_ok && g_out->errors._n == g_gen_nerr && (void *)g_out->errors._d == g_gen_errd &&
                  g_out->code.code._n == g_gen_nc) /*@C02*/;

long nondet_long(void);
static cres_t the_out;
static struct m_map_string_string { void *_d; unsigned long _n; unsigned long _cap; } the_files;
void w_compile(void *files, long main_id, void *out);
void h_compile(void)
{
  g_out = &the_out; g_seq = 0; g_parse_seq = 0; g_gen_seq = 0; g_clear_seq = 0;
  w_compile(&the_files, nondet_long(), &the_out);
  __CPROVER_assert(0, "canary: end of harness reachable (requires satisfiable)");
}
