/* Theo::extract_macros (Compiler/src/macro.cpp): validation of the insertion indices `$N` of macro bodies after the extraction
 * grammar has run (C20: an index that does not fit the word is rejected with a range error; C02: an index that names no
 * pattern is reported and the token is defused, so that apply_macros never indexes template_token_indices out of range).
 * The grammar function S and strToInt are used through contracts.  BOUNDED stand-in: at most 1 macro with at most 2 body tokens
 * (vectors of capacity 2, loops unwound). */
#include "mirror_mtail.h"
#include "lit_ids_mtail.h"
#define INT_MAX 2147483647
typedef struct m_ExtractionState es_t;
typedef struct m_Token tok_t;
typedef struct m_MacroDefinition md_t;
typedef struct m_MacroExtractionResult mres_t;
es_t *g_es;
mres_t *g_out;
long model_sub_in, model_sub_out;   /* model/include/string, MODEL_SUBSTR_GHOST */
long g_num_id, g_num_val;           /* T5: the digit string with this identity has this value */
/* what S left behind (recorded by its contract) */
unsigned long g_s_ne, g_s_nm, g_s_nr, g_s_ntt;
int g_s_t[2];
long g_s_text[2];
unsigned long g_ri;                 /* arbitrary body token of the macro */
void __verif_es(void *es) { g_es = es; }
/* T5: strtol on a digit string (contracts/gen_misc.c), for the real strToIntSilent */
long nondet_long(void);
long strtol(const char *s, char **end, int base)
{
  long r = nondet_long();
  __CPROVER_assume(r >= 0);
  if ((long)s == g_num_id) r = g_num_val;
  return r;
}
#define OLD(e) __CPROVER_old(e)
#define NE (g_es->encountered_errors._n)
#define NM (g_es->incomplete_macros._n)
#define M0 (g_es->incomplete_macros._d[0])
#ifdef SPEC_CHECKS_OFF
#pragma CPROVER check push
#pragma CPROVER check disable "pointer"
#pragma CPROVER check disable "bounds"
#pragma CPROVER check disable "signed-overflow"
#pragma CPROVER check disable "conversion"
#pragma CPROVER check disable "pointer-overflow"
#pragma CPROVER check disable "pointer-primitive"
#endif
/* S: whatever the extraction grammar does - errors, output tokens, macros with their bodies (shapes only: trusted here, the
 * grammar functions are not under contract); its contract records the state it leaves */
void c_mS(void *es)
__CPROVER_requires((void *)es == (void *)g_es && g_es->encountered_errors._d != 0 && g_es->output._d != 0 && g_es->incomplete_macros._d != 0)
__CPROVER_assigns(g_es->tok_pos, g_es->encountered_errors._n, __CPROVER_object_whole(g_es->encountered_errors._d), g_es->output._n,
                  __CPROVER_object_whole(g_es->output._d), g_es->incomplete_macros._n, __CPROVER_object_whole(g_es->incomplete_macros._d),
                  g_s_ne, g_s_nm, g_s_nr, g_s_ntt, __CPROVER_object_whole(g_s_t), __CPROVER_object_whole(g_s_text))
__CPROVER_ensures(NE <= 2 && NE < g_es->encountered_errors._cap && g_es->output._n <= g_es->output._cap && NM <= 1)
__CPROVER_ensures(NM == 0 || (__CPROVER_is_fresh(M0.replacement._d, 2 * sizeof(tok_t)) && M0.replacement._cap == 2 && M0.replacement._n <= 2 &&
                  M0.template_token_indices._n <= INT_MAX))
__CPROVER_ensures(g_s_ne == NE && g_s_nm == NM && (NM == 0 || (g_s_nr == M0.replacement._n && g_s_ntt == M0.template_token_indices._n)))
__CPROVER_ensures(NM == 0 || M0.replacement._n < 1 || (g_s_t[0] == M0.replacement._d[0].t && g_s_text[0] == M0.replacement._d[0].text._id))
__CPROVER_ensures(NM == 0 || M0.replacement._n < 2 || (g_s_t[1] == M0.replacement._d[1].t && g_s_text[1] == M0.replacement._d[1].text._id));

/* strToInt (contracts/macro.c: c_mstrToInt): exact conversion, a RANGE error exactly for values that do not fit the word */
int c_mstrToInt_callee(void *es, long tok_id)
__CPROVER_requires((void *)es == (void *)g_es && NE < g_es->encountered_errors._cap)
__CPROVER_assigns(g_es->encountered_errors._n, __CPROVER_object_whole(g_es->encountered_errors._d))
__CPROVER_ensures(NE >= OLD(NE) && NE <= OLD(NE) + 1)
__CPROVER_ensures(tok_id != g_num_id || (__CPROVER_return_value == (int)g_num_val && NE == OLD(NE) + (g_num_val >= INT_MAX ? 1 : 0)));

#define OUT_NE (g_out->errors._n)
#define OUT_M0 (g_out->macros._d[0])
#define OUT_TOK (OUT_M0.replacement._d[g_ri])
/* the body token g_ri of the macro was the insertion token `$<digits>` whose digit string has the value g_num_val */
#define WAS_INS (g_s_nm == 1 && g_ri < g_s_nr && g_s_t[g_ri] == TK_INSERTION && g_s_text[g_ri] == model_sub_in)
void c_extract_macros(void *tokens, void *out)
__CPROVER_requires((void *)out == (void *)g_out && model_sub_out == g_num_id && g_num_val >= 0 && g_ri < 2)
__CPROVER_assigns(g_es, __CPROVER_object_whole(g_out), g_s_ne, g_s_nm, g_s_nr, g_s_ntt, __CPROVER_object_whole(g_s_t), __CPROVER_object_whole(g_s_text))
/* the result hands out what the extraction state holds */
__CPROVER_ensures(g_out->macros._n == g_s_nm && OUT_NE >= g_s_ne) /*@C02*/
/* C20: an insertion index that does not fit the word is rejected with an error */
__CPROVER_ensures(!WAS_INS || g_num_val < INT_MAX || OUT_NE > g_s_ne) /*@C20,C02*/
/* C02: an index that names no pattern of the macro is reported and the token is defused (it is no insertion any more) */
__CPROVER_ensures(!WAS_INS || g_num_val >= INT_MAX || (unsigned long)g_num_val < g_s_ntt ||
                  (OUT_NE > g_s_ne && OUT_TOK.t == TK_ID && OUT_TOK.text._id == LIT_error)) /*@C02,C20*/
/* an index that names a pattern stays an insertion of that pattern; other tokens are not touched */
__CPROVER_ensures(!WAS_INS || (unsigned long)g_num_val >= g_s_ntt || g_num_val >= INT_MAX || (OUT_TOK.t == TK_INSERTION && OUT_TOK.text._id == g_s_text[g_ri])) /*@C02*/
__CPROVER_ensures(g_s_nm != 1 || g_ri >= g_s_nr || g_s_t[g_ri] == TK_INSERTION || (OUT_TOK.t == g_s_t[g_ri] && OUT_TOK.text._id == g_s_text[g_ri])) /*@C02*/
/* reachability of the cases (each must FAIL) */
__CPROVER_ensures(!WAS_INS) /*@CANARY*/
__CPROVER_ensures(!WAS_INS || g_num_val < INT_MAX) /*@CANARY*/
__CPROVER_ensures(!WAS_INS || g_num_val >= INT_MAX || (unsigned long)g_num_val < g_s_ntt) /*@CANARY*/
__CPROVER_ensures(!WAS_INS || (unsigned long)g_num_val >= g_s_ntt) /*@CANARY*/
__CPROVER_ensures(g_s_nm != 1 || g_ri >= g_s_nr || g_s_t[g_ri] == TK_INSERTION) /*@CANARY*/
__CPROVER_ensures(g_s_nm != 0) /*@CANARY*/;
#ifdef SPEC_CHECKS_OFF
#pragma CPROVER check pop
#endif

unsigned long nondet_ulong(void);
static struct m_vec_Token the_toks;
static tok_t the_tok_arr[2];
static mres_t the_out;
void w_extract_macros(void *tokens, void *out);
void h_extract_macros(void)
{
  the_toks._d = the_tok_arr; the_toks._cap = 2; the_toks._n = nondet_ulong();
  __CPROVER_assume(the_toks._n <= 2);
  g_out = &the_out;
  g_num_id = nondet_long(); g_num_val = nondet_long(); model_sub_in = nondet_long(); model_sub_out = g_num_id; g_ri = nondet_ulong();
  w_extract_macros(&the_toks, &the_out);
  __CPROVER_assert(0, "canary: end of harness reachable (requires satisfiable)");
}
