/* Contracts of the debugger-side member functions of Theo::VM (tier B, DESIGN.md sections 4 and 5:
 * C05 transparency, C06 stop bookkeeping, C17 reset, C08's tables as the VM's precondition).
 * mirror_vm.h is generated from /repo on every run.  No quantifiers: universal conclusions use unconstrained
 * ghost indices/pointers; universal hypotheses over the immutable tables are instantiated at use by the
 * __verif_use_* hooks (rule N12) - each is listed in the trusted base. */
#define MODEL_GHOST_DEFINE
#include "vm_dbg_macros.h"
#ifdef SPEC_CHECKS_OFF
#pragma CPROVER check push
#pragma CPROVER check disable "pointer"
#pragma CPROVER check disable "bounds"
#pragma CPROVER check disable "signed-overflow"
#pragma CPROVER check disable "conversion"
#pragma CPROVER check disable "pointer-overflow"
#pragma CPROVER check disable "pointer-primitive"
#endif

/* ghost state */
unsigned long g_k, g_g, g_c;
int g_old;
int *g_fs, *g_pend;
_Bool *g_isroot;
unsigned long *g_data_n;
int **g_data_d;
int g_sel;
vm_t *g_vm;
int gc_op, gc_p0, gc_p1, gc_p2;
unsigned long g_w, g_e;
long ge_file;
int ge_line;
unsigned long g_s;
int *g_cur_lo, *g_cur_hi;
/* hidden range-for variables of VM::setBreakPoint (rule N10: its locals cannot be named in loop contracts) */
extern int *__it_sbp0, *__end_sbp0, *__it_sbp1, *__end_sbp1;

/* all site lists are valid objects: finitely many because the tables are bounded in these groups (TBL_CAP) */
#ifdef TBL_CAP
#if TBL_CAP == 2
#define REQ_ALL_LISTS(p) REQ_LIST(p, 0) REQ_LIST(p, 1)
#elif TBL_CAP == 4
#define REQ_ALL_LISTS(p) REQ_LIST(p, 0) REQ_LIST(p, 1) REQ_LIST(p, 2) REQ_LIST(p, 3)
#elif TBL_CAP == 8
#define REQ_ALL_LISTS(p) REQ_LIST(p, 0) REQ_LIST(p, 1) REQ_LIST(p, 2) REQ_LIST(p, 3) REQ_LIST(p, 4) REQ_LIST(p, 5) REQ_LIST(p, 6) REQ_LIST(p, 7)
#elif TBL_CAP == 16
#define REQ_ALL_LISTS(p) REQ_LIST(p, 0) REQ_LIST(p, 1) REQ_LIST(p, 2) REQ_LIST(p, 3) REQ_LIST(p, 4) REQ_LIST(p, 5) REQ_LIST(p, 6) REQ_LIST(p, 7) \
  REQ_LIST(p, 8) REQ_LIST(p, 9) REQ_LIST(p, 10) REQ_LIST(p, 11) REQ_LIST(p, 12) REQ_LIST(p, 13) REQ_LIST(p, 14) REQ_LIST(p, 15)
#else
#error "REQ_ALL_LISTS is generated for TBL_CAP 8 and 16 only"
#endif
#else
#define REQ_ALL_LISTS(p) /* unbounded tables: the site lists are not reachable (callee-replaced uses only) */
#endif

/* ------------------------------------------------------------------ at-use hooks (N12) */
/* I5/TBL: every listed site is a breakpoint instruction of the loaded program */
void __verif_use_site(int ind) { __CPROVER_assume(SITE_VAL_OK(g_vm, ind)); }
/* I5: every enabled location is a key of potential_breaks, and its site list lies in the arena; the witness entry is
 * handed to the next map lookup */
void __verif_use_enabled(const void *bp)
{
  unsigned long e = nondet_ulong();
  __CPROVER_assume(e < NPB(g_vm) && BPEQ(PB(g_vm)[e].first, ((const bp_t *)bp)->file._id, ((const bp_t *)bp)->line));
  /* keys of a map are pairwise distinct (instantiated at the ghost entry g_w) */
  __CPROVER_assume(g_w >= NPB(g_vm) || g_w == e || !BPEQ(PB(g_vm)[g_w].first, PB(g_vm)[e].first.file._id, PB(g_vm)[e].first.line));
  model_pick_map = e;
  g_cur_lo = SITES(g_vm, e)._d;
  g_cur_hi = SITES(g_vm, e)._d + SITES(g_vm, e)._n;
}

/* ------------------------------------------------------------------ getCurrentBreak (C06) */
void c_getCurrentBreak(void *p, long *out_file, int *out_line)
REQ_DBG_SHAPE(p)
__CPROVER_requires(__CPROVER_is_fresh(out_file, sizeof(long)) && __CPROVER_is_fresh(out_line, sizeof(int)))
__CPROVER_assigns(*out_file, *out_line, MODEL_MAP_GHOSTS)
/* the entry used is the one recorded for the instruction just passed ... */
__CPROVER_ensures(model_last_map >= NLI(p) || (LI(p)[model_last_map].first == IP(p) - 1 &&
                  *out_line == LI(p)[model_last_map].second.line && *out_file == LI(p)[model_last_map].second.file._id)) /*@C06,C07*/
/* ... and "none" (line -1) is reported only if no entry (ghost index) is recorded for it */
__CPROVER_ensures(model_last_map < NLI(p) || (*out_line == -1 && !(model_g_map < NLI(p) && LI(p)[model_g_map].first == IP(p) - 1))) /*@C06*/
/* before execution starts / after reset (ip = 0): none, because table keys are code positions (>= 0) */
__CPROVER_ensures(IP(p) != 0 || *out_line == -1 || (model_last_map < NLI(p) && LI(p)[model_last_map].first < 0)) /*@C06,C17*/
/* reachability of the cases (each must FAIL) */
__CPROVER_ensures(model_last_map >= NLI(p)) /*@CANARY*/
__CPROVER_ensures(model_last_map < NLI(p)) /*@CANARY*/;

/* ------------------------------------------------------------------ small accessors */
void c_setSteppingMode(void *p, _Bool mode)
REQ_DBG_SHAPE(p)
__CPROVER_assigns(STEPPING(p))
__CPROVER_ensures(STEPPING(p) == mode) /*@C06,C05*/;

_Bool c_isSteppingModeEnabled(void *p)
REQ_DBG_SHAPE(p)
__CPROVER_assigns()
__CPROVER_ensures(__CPROVER_return_value == STEPPING(p)) /*@C06*/;

_Bool c_isDone(void *p)
REQ_DBG_SHAPE(p)
__CPROVER_assigns()
__CPROVER_ensures(__CPROVER_return_value == (OPC(p, IP(p)) == OP_HALT)) /*@C17,C06*/;

void *c_getActivations(void *p)
REQ_DBG_SHAPE(p)
__CPROVER_assigns()
__CPROVER_ensures(__CPROVER_return_value == (void *)&V(p)->stack) /*@C05,C07*/;

void *c_getEnabledBreakPoints(void *p)
REQ_DBG_SHAPE(p)
__CPROVER_assigns()
__CPROVER_ensures(__CPROVER_return_value == (void *)&V(p)->enabled_breakpoints) /*@C06*/;

/* ------------------------------------------------------------------ clearBreakpoints (C05, C06, C17) */
void c_clearBreakpoints(void *p)
REQ_DBG_SHAPE(p)
REQ_ALL_LISTS(p)
__CPROVER_requires(model_pick_map == NONE && model_pick2_map == NONE && model_pick3_map == NONE)
__CPROVER_assigns(V(p)->enabled_breakpoints._n, __CPROVER_object_whole(CODE(p)), MODEL_MAP_GHOSTS, g_cur_lo, g_cur_hi)
__CPROVER_ensures(NEN(p) == 0) /*@C06,C17*/
__CPROVER_ensures(CODE_G_PARAMS_SAME(p)) /*@C05,C17*/
__CPROVER_ensures(CODE_G_OP_DEBUGGER_ONLY(p)) /*@C05,C17*/
/* every site of every enabled location is passive again: ghost enabled position g_e, ghost entry g_w with that key,
 * ghost position g_s in its site list */
__CPROVER_ensures(g_e >= OLD(NEN(p)) || g_w >= NPB(p) || !BPEQ(PB(p)[g_w].first, ge_file, ge_line) || g_s >= SITES(p, g_w)._n ||
                  OPC(p, SITES(p, g_w)._d[g_s]) == OP_POTENTIAL_BREAK) /*@C05,C06,C17*/
;

/* ------------------------------------------------------------------ reset (C17): callee clearBreakpoints replaced */
void c_reset(void *p)
REQ_DBG_SHAPE(p)
REQ_LIST(p, g_w)
__CPROVER_requires(model_pick_map == NONE && model_pick2_map == NONE && model_pick3_map == NONE)
__CPROVER_assigns(STEPPING(p), IP(p), V(p)->data._n, V(p)->stack._n, V(p)->enabled_breakpoints._n,
                  __CPROVER_object_whole(CODE(p)), MODEL_MAP_GHOSTS, g_cur_lo, g_cur_hi)
/* the abstract state of a freshly constructed machine on the same program */
/* (C07/C16: no activation of the previous run survives - the next run starts from an empty stack, so activation views are
 * those of the new run and the stack bound is counted from zero) */
__CPROVER_ensures(STEPPING(p) == 0 && IP(p) == 0 && M(p) == 0 && D(p) == 0 && NEN(p) == 0) /*@C17,C06,C19,C07,C16*/
__CPROVER_ensures(CODE_G_PARAMS_SAME(p)) /*@C17,C05*/
__CPROVER_ensures(CODE_G_OP_DEBUGGER_ONLY(p)) /*@C17,C05*/
__CPROVER_ensures(g_e >= OLD(NEN(p)) || g_w >= NPB(p) || !BPEQ(PB(p)[g_w].first, ge_file, ge_line) || g_s >= SITES(p, g_w)._n ||
                  OPC(p, SITES(p, g_w)._d[g_s]) == OP_POTENTIAL_BREAK) /*@C17,C06,C05*/
;

/* ------------------------------------------------------------------ setBreakPoint (C05, C06) */
_Bool c_setBreakPoint(void *p, long file_id, int line, _Bool value)
REQ_DBG_SHAPE(p)
/* the entry the lookup may find is the ghost entry g_w (arbitrary), whose site list lies in the arena */
__CPROVER_requires(g_w < SKIP && model_pick_map == g_w && model_pick2_map == NONE && model_pick3_map == NONE && model_pick_set == NONE && model_pick2_set == NONE && model_pick3_set == NONE)
REQ_LIST(p, g_w)
__CPROVER_assigns(V(p)->enabled_breakpoints._n, __CPROVER_object_whole(EN(p)), __CPROVER_object_whole(CODE(p)),
                  MODEL_MAP_GHOSTS, MODEL_SET_GHOSTS, __it_sbp0, __end_sbp0, __it_sbp1, __end_sbp1)
/* succeeds exactly for locations listed as available */
__CPROVER_ensures(!__CPROVER_return_value || (model_last_map < NPB(p) && BPEQ(PB(p)[model_last_map].first, file_id, line))) /*@C06,C08*/
__CPROVER_ensures(__CPROVER_return_value || !(model_g_map < NPB(p) && BPEQ(PB(p)[model_g_map].first, file_id, line))) /*@C06,C08*/
/* a refused request changes nothing */
__CPROVER_ensures(__CPROVER_return_value || (NEN(p) == OLD(NEN(p)) && (g_c >= N(p) || OPC(p, g_c) == gc_op) &&
                  (g_e >= NEN(p) || BPEQ(EN(p)[g_e], ge_file, ge_line)))) /*@C05,C06*/
__CPROVER_ensures(CODE_G_PARAMS_SAME(p)) /*@C05*/
__CPROVER_ensures(CODE_G_OP_DEBUGGER_ONLY(p)) /*@C05*/
/* every site of the location (ghost position g_s of its list) is switched to the requested form */
__CPROVER_ensures(!__CPROVER_return_value || g_s >= SITES(p, g_w)._n ||
                  OPC(p, SITES(p, g_w)._d[g_s]) == (value ? OP_BREAK : OP_POTENTIAL_BREAK)) /*@C05,C06*/
/* enabled set: the location is a member afterwards iff it was enabled; all other members are kept */
__CPROVER_ensures(!__CPROVER_return_value || !value || (model_last_set < NEN(p) && BPEQ(EN(p)[model_last_set], file_id, line))) /*@C06*/
__CPROVER_ensures(!__CPROVER_return_value || value || !(model_g_set < NEN(p) && BPEQ(EN(p)[model_g_set], file_id, line))) /*@C06*/
__CPROVER_ensures(!__CPROVER_return_value || g_e >= OLD(NEN(p)) || (ge_file == file_id && ge_line == line) ||
                  (g_e < NEN(p) && BPEQ(EN(p)[g_e], ge_file, ge_line)) ||
                  (model_last_set < NEN(p) && BPEQ(EN(p)[model_last_set], ge_file, ge_line))) /*@C06*/
/* reachability of the cases (each must FAIL) */
__CPROVER_ensures(__CPROVER_return_value) /*@CANARY*/
__CPROVER_ensures(!__CPROVER_return_value) /*@CANARY*/
__CPROVER_ensures(!__CPROVER_return_value || !value) /*@CANARY*/
__CPROVER_ensures(!__CPROVER_return_value || value) /*@CANARY*/
__CPROVER_ensures(!__CPROVER_return_value || g_s >= SITES(p, g_w)._n) /*@CANARY*/;

#ifdef SPEC_CHECKS_OFF
#pragma CPROVER check pop
#endif

/* ------------------------------------------------------------------ harnesses */
int nondet_int(void);
long nondet_long(void);
_Bool nondet_bool(void);
int *nondet_pint(void);
vm_t *nondet_pvm(void);
void w_getCurrentBreak(void *p, long *out_file, int *out_line);
void w_setSteppingMode(void *p, _Bool mode);
_Bool w_isSteppingModeEnabled(void *p);
_Bool w_isDone(void *p);
_Bool w_setBreakPoint(void *p, long file_id, int line, _Bool value);
void w_clearBreakpoints(void *p);
void w_reset(void *p);
void *w_getActivations(void *p);
void *w_getEnabledBreakPoints(void *p);

static void havoc_ghosts(void)
{
  g_c = nondet_ulong(); g_w = nondet_ulong(); g_e = nondet_ulong();
  gc_op = nondet_int(); gc_p0 = nondet_int(); gc_p1 = nondet_int(); gc_p2 = nondet_int();
  ge_file = nondet_long(); ge_line = nondet_int();
  model_ghost_havoc();
  g_s = nondet_ulong(); g_vm = nondet_pvm();
}
#define CANARY __CPROVER_assert(0, "canary: end of harness reachable (requires satisfiable)")
void h_getCurrentBreak(void) { void *p; long *f; int *l; havoc_ghosts(); w_getCurrentBreak(p, f, l); CANARY; }
void h_setSteppingMode(void) { void *p; havoc_ghosts(); w_setSteppingMode(p, nondet_bool()); CANARY; }
void h_isSteppingModeEnabled(void) { void *p; havoc_ghosts(); w_isSteppingModeEnabled(p); CANARY; }
void h_isDone(void) { void *p; havoc_ghosts(); w_isDone(p); CANARY; }
void h_getActivations(void) { void *p; havoc_ghosts(); w_getActivations(p); CANARY; }
void h_getEnabledBreakPoints(void) { void *p; havoc_ghosts(); w_getEnabledBreakPoints(p); CANARY; }
void h_clearBreakpoints(void) { void *p; havoc_ghosts(); w_clearBreakpoints(p); CANARY; }
void h_reset(void) { void *p; havoc_ghosts(); w_reset(p); CANARY; }
void h_setBreakPoint(void) { void *p; havoc_ghosts(); w_setBreakPoint(p, nondet_long(), nondet_int(), nondet_bool()); CANARY; }
