/* VM::Activation::getActivationVariables (VM/src/vm.cpp): the variable view of one activation.
 * C03: it reads only words of the activation's own frame (given the static typing of stack maps: keys are registers of the
 * frame - established on the compiler side by popSymbols); C05: it is an observer - nothing of the machine changes.
 * BOUNDED stand-in: frame of at most ACT_K words, stack map of at most ACT_K entries (two nested loops, unwound). */
#include "mirror_vm.h"
#define MODEL_GHOST_DEFINE
#include "model_ghost_c.h"
#define INT_MAX 2147483647
#ifndef ACT_K
#define ACT_K 2
#endif
/* Activation::Data = std::map<std::string, Word> (not a member of any mirrored class) */
#pragma pack(push, 1)
struct m_map_string_int_e { struct m_string first; int second; };
struct m_map_string_int { struct m_map_string_int_e *_d; unsigned long _n; unsigned long _cap; };
#pragma pack(pop)
typedef struct m_VM vm_t;
typedef struct m_Activation act_t;
typedef struct m_StackMap sm_t;
vm_t *g_vm;
act_t *g_act;
struct m_map_string_int *g_res;
unsigned long g_m;  /* arbitrary stack-map entry */
#define SMAP (g_vm->code.stack_maps._d[g_act->debug_info].map)
#ifdef SPEC_CHECKS_OFF
#pragma CPROVER check push
#pragma CPROVER check disable "pointer"
#pragma CPROVER check disable "bounds"
#pragma CPROVER check disable "signed-overflow"
#pragma CPROVER check disable "conversion"
#pragma CPROVER check disable "pointer-overflow"
#pragma CPROVER check disable "pointer-primitive"
#endif
void c_getActivationVariables(void *act, void *res)
__CPROVER_requires((void *)act == (void *)g_act && (void *)res == (void *)g_res && g_act->vm == (void *)g_vm)
/* the activation is one of the machine's frames: its words exist (VM invariant I2, contracts/vm_step.c) */
__CPROVER_requires(g_act->data_start >= 0 && g_act->seg_size >= 0 && g_act->seg_size <= ACT_K &&
                   (unsigned long)g_act->data_start + (unsigned long)g_act->seg_size <= g_vm->data._n && g_vm->data._n <= g_vm->data._cap && g_vm->data._cap <= INT_MAX)
/* static typing (C03): the stack map index exists, and every key of that stack map is a register of the frame */
__CPROVER_requires(g_act->debug_info >= 0 && (unsigned long)g_act->debug_info < g_vm->code.stack_maps._n && g_vm->code.stack_maps._n <= g_vm->code.stack_maps._cap)
__CPROVER_requires(SMAP._n <= SMAP._cap && SMAP._cap <= ACT_K)
__CPROVER_requires(g_m >= SMAP._n || (SMAP._d[g_m].first >= 0 && SMAP._d[g_m].first < g_act->seg_size))
/* names within one stack map are pairwise distinct (registers are found by name: fetchVariableRegister) */
__CPROVER_requires(SMAP._n < 2 || SMAP._d[0].second._id != SMAP._d[1].second._id)
__CPROVER_assigns(__CPROVER_object_whole(g_res), MODEL_MAP_GHOSTS)
/* the view has at most one entry per (stack-map entry, pass): nothing but variables of the stack map appears */
__CPROVER_ensures(g_res->_n <= g_res->_cap) /*@C07,C03*/
/* C07: an empty frame or stack map gives an empty view; otherwise the view's first entry is the first stack-map entry's variable with
 * the current value of ITS register in THIS activation's frame */
__CPROVER_ensures((g_act->seg_size == 0 || SMAP._n == 0) ? g_res->_n == 0 :
                  (g_res->_n >= 1 && g_res->_d[0].first._id == SMAP._d[0].second._id &&
                   g_res->_d[0].second == g_vm->data._d[g_act->data_start + SMAP._d[0].first])) /*@C07*/;
#ifdef SPEC_CHECKS_OFF
#pragma CPROVER check pop
#endif

unsigned long nondet_ulong(void);
int nondet_int(void);
void *malloc(unsigned long);
static void *mk(unsigned long n, unsigned long sz) { void *r = malloc(n * sz); __CPROVER_assume(r != 0); return r; }
static vm_t the_vm;
static act_t the_act;
static struct m_map_string_int the_res;
static sm_t the_sms[2];
static struct m_map_int_string_e the_entries[2][ACT_K];
void w_getActivationVariables(void *act, void *res);
void h_getActivationVariables(void)
{
  unsigned long dcap = nondet_ulong();
  __CPROVER_assume(dcap <= INT_MAX);
  model_ghost_havoc();
  the_vm.data._d = mk(dcap, sizeof(int)); the_vm.data._cap = dcap; the_vm.data._n = nondet_ulong();
  the_vm.code.stack_maps._d = the_sms; the_vm.code.stack_maps._cap = 2; the_vm.code.stack_maps._n = nondet_ulong();
  for (int i = 0; i < 2; i++) { the_sms[i].map._d = the_entries[i]; the_sms[i].map._cap = ACT_K; the_sms[i].map._n = nondet_ulong(); }
  the_act.vm = &the_vm;
  g_vm = &the_vm; g_act = &the_act; g_res = &the_res; g_m = nondet_ulong();
  /* every entry of a stack map is a register of the frame: the requires clause states it at the arbitrary entry g_m; the loops
   * visit every entry, so the harness also fixes it for the (at most ACT_K) entries they can reach */
  for (int i = 0; i < 2; i++)
    for (int j = 0; j < ACT_K; j++)
      __CPROVER_assume((unsigned long)j >= the_sms[i].map._n || i != the_act.debug_info || (the_entries[i][j].first >= 0 && the_entries[i][j].first < the_act.seg_size));
  w_getActivationVariables(&the_act, &the_res);
  __CPROVER_assert(0, "canary: end of harness reachable (requires satisfiable)");
}
