/* Shared predicates of the code-generator contracts (tiers C1/C3).  mirror_gen.h and lit_ids.h are GENERATED from
 * /repo on every run. */
#ifndef GEN_COMMON_H
#define GEN_COMMON_H
#include "mirror_gen.h"
#include "lit_ids.h"
#include "model_ghost_c.h"
#define INT_MAX 2147483647
typedef struct m_GenState gs_t;
typedef struct m_map_int_BreakPoint_e li_e;
typedef struct m_map_BreakPoint_vector_ProgramIndex_e pb_e;
typedef struct m_BreakPoint bp_t;
typedef struct m_FunctionGenState fgs_t;
typedef struct m_VReg vreg_t;
typedef struct m_Node node_t;
typedef struct m_Error err_t;

#ifdef LOOP_INV_CONTEXT
#define G(p) (p)
#else
#define G(p) ((gs_t *)(p))
#endif
#define NC(p) (G(p)->out.code._n)
#define CCAP(p) (G(p)->out.code._cap)
#define CODE(p) (G(p)->out.code._d)
#define OPC(p, i) (CODE(p)[i].op)
#define PAR(p, i, j) (CODE(p)[i].parameters[j])
#define LI(p) (G(p)->out.line_info._d)
#define NLI(p) (G(p)->out.line_info._n)
#define LICAP(p) (G(p)->out.line_info._cap)
#define PB(p) (G(p)->out.potential_breaks._d)
#define NPB(p) (G(p)->out.potential_breaks._n)
#define PBCAP(p) (G(p)->out.potential_breaks._cap)
#define SITES(p, e) (PB(p)[e].second)
#define NERR(p) (G(p)->errors._n)
#define ERRCAP(p) (G(p)->errors._cap)
#define ERRS(p) (G(p)->errors._d)
#define FSN(p) (G(p)->fs.name._id)
#define FSL(p) (G(p)->fs.line)
#define BPEQ(a, f, l) ((a).file._id == (f) && (a).line == (l))
#define OLD(e) __CPROVER_old(e)

/* ghost state */
extern gs_t *g_gs;          /* typed handle for loop invariants */
extern unsigned long g_c;   /* ghost code index */
extern int gc_op, gc_p0, gc_p1, gc_p2;
extern unsigned long g_l;   /* ghost line_info index */
extern int gl_key; extern long gl_file; extern int gl_line;
extern unsigned long g_w;   /* ghost potential_breaks entry (the one a lookup may find) */
extern unsigned long g_o;   /* ghost "other" potential_breaks entry */
extern long go_file; extern int go_line; extern unsigned long go_n; extern int *go_d;
extern unsigned long g_s;   /* ghost position in the site list of g_w */
extern int gs_val;

/* TBL_CAP: bounded stand-in for the number of table entries (arrays of constant size); undefined: unbounded */
#ifdef TBL_CAP
#define TBL_CAP_MAX TBL_CAP
#define TBL_ALLOC(cap) TBL_CAP
#else
#define TBL_CAP_MAX INT_MAX
#define TBL_ALLOC(cap) (cap)
#endif
/* code array + the two tables are separate valid objects */
#define REQ_TBL_SHAPE(p)                                                                  \
  __CPROVER_requires(__CPROVER_is_fresh(p, sizeof(gs_t)))                                 \
  __CPROVER_requires(g_gs == G(p))                                                        \
  __CPROVER_requires(NC(p) <= CCAP(p) && CCAP(p) <= INT_MAX)                              \
  __CPROVER_requires(__CPROVER_is_fresh(CODE(p), CCAP(p) * sizeof(struct m_Instruction)))  \
  __CPROVER_requires(NLI(p) <= LICAP(p) && LICAP(p) <= TBL_CAP_MAX)                       \
  __CPROVER_requires(__CPROVER_is_fresh(LI(p), TBL_ALLOC(LICAP(p)) * sizeof(li_e)))       \
  __CPROVER_requires(NPB(p) <= PBCAP(p) && PBCAP(p) <= TBL_CAP_MAX)                       \
  __CPROVER_requires(__CPROVER_is_fresh(PB(p), TBL_ALLOC(PBCAP(p)) * sizeof(pb_e)))       \
  /* the entry a lookup may find (ghost, arbitrary) owns a valid site list */              \
  __CPROVER_requires(g_w < SKIP)                                                          \
  __CPROVER_requires(g_w >= NPB(p) || (SITES(p, g_w)._n <= SITES(p, g_w)._cap && SITES(p, g_w)._cap <= INT_MAX)) \
  __CPROVER_requires(g_w >= NPB(p) || __CPROVER_is_fresh(SITES(p, g_w)._d, SITES(p, g_w)._cap * sizeof(int))) \
  /* ghost snapshots */                                                                   \
  __CPROVER_requires(g_c >= NC(p) || (gc_op == OPC(p, g_c) && gc_p0 == PAR(p, g_c, 0) && gc_p1 == PAR(p, g_c, 1) && gc_p2 == PAR(p, g_c, 2))) \
  __CPROVER_requires(g_l >= NLI(p) || (gl_key == LI(p)[g_l].first && gl_file == LI(p)[g_l].second.file._id && gl_line == LI(p)[g_l].second.line)) \
  __CPROVER_requires(g_o >= NPB(p) || (go_file == PB(p)[g_o].first.file._id && go_line == PB(p)[g_o].first.line && \
                                       go_n == SITES(p, g_o)._n && go_d == SITES(p, g_o)._d))  \
  __CPROVER_requires(g_w >= NPB(p) || g_s >= SITES(p, g_w)._n || gs_val == SITES(p, g_w)._d[g_s])

/* N12 hook of GenState::backpatch: only contracts/gen_disp.c gives it a meaning */
#if defined(MODEL_GHOST_DEFINE) && !defined(HAVE_BP_HOOK)
void __verif_use_bp(int loc, unsigned long pos) {}
#endif
#define CODE_G_SAME(p) (g_c >= OLD(NC(p)) || (OPC(p, g_c) == gc_op && PAR(p, g_c, 0) == gc_p0 && PAR(p, g_c, 1) == gc_p1 && PAR(p, g_c, 2) == gc_p2))
#define LI_IS(p, i, k, f, l) (LI(p)[i].first == (k) && LI(p)[i].second.file._id == (f) && LI(p)[i].second.line == (l))
#define PB_O_SAME_AT(p, i) (BPEQ(PB(p)[i].first, go_file, go_line) && SITES(p, i)._n == go_n && SITES(p, i)._d == go_d)
#endif
