/* Theo::VM::VM(Program) (VM/src/vm.cpp): a new machine is in the initial state - the abstract state VM::reset re-establishes
 * (C17: contracts/vm_dbg.c, c_reset) - and runs the given program. */
#include "mirror_vm.h"
typedef struct m_VM vm_t;
typedef struct m_Program prog_t;
vm_t *g_vm;
prog_t *g_prog;
#ifdef SPEC_CHECKS_OFF
#pragma CPROVER check push
#pragma CPROVER check disable "pointer"
#pragma CPROVER check disable "bounds"
#pragma CPROVER check disable "pointer-primitive"
#endif
void c_ctor(void *vm, void *prog)
__CPROVER_requires((void *)vm == (void *)g_vm && (void *)prog == (void *)g_prog)
__CPROVER_assigns(__CPROVER_object_whole(g_vm))
/* not stepping, at instruction 0, no data, no activation, no enabled breakpoint */
__CPROVER_ensures(g_vm->stepping_mode_enabled == 0 && g_vm->instruction_pointer == 0 && g_vm->data._n == 0 && g_vm->stack._n == 0 &&
                  g_vm->enabled_breakpoints._n == 0) /*@C17,C06,C19*/
/* the machine's program is the given one (instructions, stack maps and both breakpoint tables) */
__CPROVER_ensures(g_vm->code.code._n == g_prog->code._n && g_vm->code.code._d == g_prog->code._d && g_vm->code.stack_maps._n == g_prog->stack_maps._n &&
                  g_vm->code.stack_maps._d == g_prog->stack_maps._d && g_vm->code.line_info._n == g_prog->line_info._n &&
                  g_vm->code.line_info._d == g_prog->line_info._d && g_vm->code.potential_breaks._n == g_prog->potential_breaks._n &&
                  g_vm->code.potential_breaks._d == g_prog->potential_breaks._d) /*@C17,C05*/;
#ifdef SPEC_CHECKS_OFF
#pragma CPROVER check pop
#endif
static vm_t the_vm;
static prog_t the_prog;
void w_ctor(void *vm, void *prog);
void h_ctor(void)
{
  g_vm = &the_vm; g_prog = &the_prog;
  w_ctor(&the_vm, &the_prog);
  __CPROVER_assert(0, "canary: end of harness reachable (requires satisfiable)");
}
