/* macros of the VM step contracts (shared by contracts/vm_step.c and the loop-invariant templates) */
#ifndef VM_STEP_MACROS_H
#define VM_STEP_MACROS_H
#include "vm_common.h"
#define INR(a, m) ((long)(a) >= 0 && (long)(a) < (long)(m))
#define REQ_CEX_TIE(p)                                                                    \
  __CPROVER_requires(cex_ip == IP(p) && cex_op == OPC(p, IP(p)) && cex_p0 == PAR(p, IP(p), 0) &&        \
                     cex_p1 == PAR(p, IP(p), 1) && cex_p2 == PAR(p, IP(p), 2) && cex_stepping == STEPPING(p) && \
                     cex_n == N(p) && cex_m == M(p) && cex_d == D(p) && cex_nsm == NSM(p))  \
  __CPROVER_requires(D(p) < 1 || (cex_t_ds == TOP(p).data_start && cex_t_sz == TOP(p).seg_size &&       \
                                  cex_t_rt == TOP(p).ret_target && cex_t_ra == TOP(p).ret_addr &&       \
                                  cex_t_di == TOP(p).debug_info))                          \
  __CPROVER_requires(D(p) < 1 || !INR((long)cex_t_ds + cex_p0, M(p)) || cex_w_t0 == DATA(p)[(long)cex_t_ds + cex_p0]) \
  __CPROVER_requires(D(p) < 1 || !INR((long)cex_t_ds + cex_p1, M(p)) || cex_w_t1 == DATA(p)[(long)cex_t_ds + cex_p1]) \
  __CPROVER_requires(D(p) < 1 || !INR((long)cex_t_ds + cex_p2, M(p)) || cex_w_t2 == DATA(p)[(long)cex_t_ds + cex_p2]) \
  __CPROVER_requires(D(p) < 2 || (cex_u_ds == TOP1(p).data_start && cex_u_sz == TOP1(p).seg_size &&     \
                                  cex_u_rt == TOP1(p).ret_target && cex_u_ra == TOP1(p).ret_addr &&     \
                                  cex_u_di == TOP1(p).debug_info))                         \
  __CPROVER_requires(D(p) < 2 || !INR((long)cex_u_ds + cex_p1, M(p)) || cex_w_u1 == DATA(p)[(long)cex_u_ds + cex_p1])
#define OLD(e) __CPROVER_old(e)
#define I0(p) IP(p)
#define P_(p, j) PAR(p, IP(p), j)
#define BASE(p) (TOP(p).data_start)
#define CELL(p, r) (DATA(p)[BASE(p) + (r)])
#define TIE(p) (g_data_n == &V(p)->data._n && g_data_d == &V(p)->data._d)
#define REQ_STEP(p, OPX)                                                                  \
  REQ_VM_SHAPE(p)                                                                         \
  __CPROVER_requires(OPC(p, IP(p)) == (OPX))                                              \
  REQ_INV(p)                                                                              \
  __CPROVER_requires(TIE(p))                                                              \
  REQ_CEX_TIE(p)
#define NONROOT(p) (IP(p) >= 1)
#define ADD_T(p) P_(p, PI_add_target)
#define ADD_S(p) P_(p, PI_add_source)
#define ADD_C(p) P_(p, PI_add_constant)
#define TST_T(p) P_(p, PI_test_target)
#define TST_A(p) P_(p, PI_test_op1)
#define TST_B(p) P_(p, PI_test_op2)
#define CST_T(p) P_(p, PI_constant_target)
#define CST_C(p) P_(p, PI_constant_constant)
#define JMP_TGT_OK(p, off)                                                                \
  ((long)IP(p) + (long)(off) >= 1 && (long)IP(p) + (long)(off) < (long)N(p) &&            \
   SAME_ROUTINE(IP(p), IP(p) + (off)) && PEND(IP(p) + (off)) == -1)
#define JC_S(p) P_(p, PI_jmpc_source)
#define PR_CNT(p) P_(p, PI_prepare_count)
#define PR_IDX(p) P_(p, PI_prepare_index)
#define PR_TGT(p) P_(p, PI_prepare_target)
#define PREPARE_WF(p)                                                                     \
  (PR_CNT(p) >= 0 && PR_IDX(p) >= 0 && (unsigned long)PR_IDX(p) < NSM(p) &&               \
   (unsigned long)IP(p) + 1 < N(p) &&                                                     \
   (IP(p) == 0 ? (FS(1) == PR_CNT(p) && ISROOT(1) && PEND(1) == -1)                       \
               : (PEND(IP(p)) == -1 && REG_IN(IP(p), PR_TGT(p)) && SAME_ROUTINE(IP(p), IP(p) + 1) && \
                  PEND(IP(p) + 1) >= 1 && (unsigned long)PEND(IP(p) + 1) < N(p) &&        \
                  FS(PEND(IP(p) + 1)) == PR_CNT(p))))
#define ARG_T(p) P_(p, PI_arg_target)
#define ARG_S(p) P_(p, PI_arg_source)
#define EX_E(p) P_(p, PI_exec_entry)
#define RET_S(p) P_(p, PI_ret_source)
#define IS_OP(p, X) (OPC(p, IP(p)) == (X))
#define WF_IP(p)                                                                          \
  (IS_OP(p, OP_HALT) ||                                                                   \
   ((IS_OP(p, OP_POTENTIAL_BREAK) || IS_OP(p, OP_BREAK)) && NONROOT(p) && PLAIN_NEXT(p, IP(p))) || \
   (IS_OP(p, OP_ADD_CONST) && NONROOT(p) && PLAIN_NEXT(p, IP(p)) && REG_IN(IP(p), ADD_T(p)) && REG_IN(IP(p), ADD_S(p))) || \
   (IS_OP(p, OP_TEST) && NONROOT(p) && PLAIN_NEXT(p, IP(p)) && REG_IN(IP(p), TST_T(p)) && REG_IN(IP(p), TST_A(p)) && REG_IN(IP(p), TST_B(p))) || \
   (IS_OP(p, OP_CONST) && NONROOT(p) && PLAIN_NEXT(p, IP(p)) && REG_IN(IP(p), CST_T(p)) && CST_C(p) >= 0) || \
   (IS_OP(p, OP_JMP) && NONROOT(p) && PEND(IP(p)) == -1 && JMP_TGT_OK(p, P_(p, PI_jmp_offset))) || \
   (IS_OP(p, OP_JMPC) && NONROOT(p) && PLAIN_NEXT(p, IP(p)) && JMP_TGT_OK(p, P_(p, PI_jmpc_offset)) && REG_IN(IP(p), JC_S(p))) || \
   (IS_OP(p, OP_PREPARE_EXEC) && PREPARE_WF(p)) ||                                        \
   (IS_OP(p, OP_ARG) && NONROOT(p) && PEND(IP(p)) != -1 && (unsigned long)IP(p) + 1 < N(p) && \
    PEND(IP(p) + 1) == PEND(IP(p)) && SAME_ROUTINE(IP(p), IP(p) + 1) && REG_IN(PEND(IP(p)), ARG_T(p)) && REG_IN(IP(p), ARG_S(p))) || \
   (IS_OP(p, OP_EXEC) && NONROOT(p) && EX_E(p) >= 1 && (unsigned long)EX_E(p) < N(p) && PEND(IP(p)) == EX_E(p) && \
    PEND(EX_E(p)) == -1 && !ISROOT(EX_E(p)) && (unsigned long)IP(p) + 1 < N(p) && PEND(IP(p) + 1) == -1 && \
    SAME_ROUTINE(IP(p), IP(p) + 1)) ||                                                    \
   (IS_OP(p, OP_RET) && NONROOT(p) && PEND(IP(p)) == -1 && !ISROOT(IP(p)) && REG_IN(IP(p), RET_S(p))))
#define NAT_READ(p)                                                                       \
  ((!IS_OP(p, OP_ADD_CONST) || CELL(p, ADD_S(p)) >= 0) && (!IS_OP(p, OP_RET) || CELL(p, RET_S(p)) >= 0) && \
   (!IS_OP(p, OP_ARG) || DATA(p)[TOP1(p).data_start + ARG_S(p)] >= 0))
#define ALLOC_OK(p) (!IS_OP(p, OP_PREPARE_EXEC) || (M(p) + (unsigned long)PR_CNT(p) <= MCAP(p) && D(p) < DCAP(p)))
#define STOPS(p) (IS_OP(p, OP_BREAK) || IS_OP(p, OP_HALT) || (IS_OP(p, OP_POTENTIAL_BREAK) && STEPPING(p)))
#define STOPPED_AT(p)                                                                     \
  (IS_OP(p, OP_HALT) || (IP(p) >= 1 && (OPC(p, IP(p) - 1) == OP_BREAK ||                  \
                                        (OPC(p, IP(p) - 1) == OP_POTENTIAL_BREAK && STEPPING(p)))))
#endif
