/* End of Theo::parse (Compiler/src/parse.cpp), from the statement that gathers the error lists of the scanner and the two macro passes to the
 * return statement.  C02: every error of the three passes is appended, in that order, to the errors the parser itself recorded; the tree is
 * marked correct exactly if the resulting list is empty (the head of the function clears the mark); the tree handed out is the one built.
 * C15: the result carries the collected file requests unchanged.
 * BOUNDED: at most one error per pass and one parser error (the specification is written out per position; loops unwound completely). */
#include "mirror_tail.h"
typedef struct m_ParseResult pres_t;
typedef struct m_AST ast_t;
typedef struct m_vec_ParseError pev_t;
typedef struct m_ParseError perr_t;
typedef struct m_SyntaxError serr_t;
pev_t *g_e1, *g_e2, *g_e3; perr_t *g_p1, *g_p2, *g_p3;
ast_t *g_a; serr_t *g_ae; struct m_vec_string *g_fr; pres_t *g_out;
unsigned long g_n0; _Bool g_pc0; void *g_root0; void *g_nodes0; unsigned long g_nnodes0;   /* ghost: the tree before */
int g_l0; long g_f0, g_m0;                                                                   /* ghost: the parser's own error, if any */
#define N1 (g_e1->_n)
#define N2 (g_e2->_n)
#define N3 (g_e3->_n)
#define TOT (g_n0 + N1 + N2 + N3)
#define OUT_E (g_out->a.errors._d)
#define SAME(s, p) ((s).line == (p).line && (s).file._id == (p).file._id && (s).msg._id == (p).msg._id)

void c_parse_tail(void *e1, void *e2, void *e3, void *a, void *freq, void *out)
__CPROVER_requires(e1 == (void *)g_e1 && e2 == (void *)g_e2 && e3 == (void *)g_e3 && a == (void *)g_a && freq == (void *)g_fr && out == (void *)g_out)
__CPROVER_requires(g_e1->_d == g_p1 && g_e2->_d == g_p2 && g_e3->_d == g_p3 && N1 <= 1 && N2 <= 1 && N3 <= 1)
__CPROVER_requires(g_a->errors._d == g_ae && g_a->errors._n == g_n0 && g_n0 <= 1 && g_a->errors._cap == 4 && g_a->parsed_correctly == g_pc0 &&
                   g_a->root == g_root0 && (void *)g_a->all_allocated_nodes._d == g_nodes0 && g_a->all_allocated_nodes._n == g_nnodes0)
__CPROVER_requires(g_ae[0].line == g_l0 && g_ae[0].file._id == g_f0 && g_ae[0].msg._id == g_m0)
__CPROVER_assigns(__CPROVER_object_whole(g_a), __CPROVER_object_whole(g_ae), __CPROVER_object_whole(g_out))
/* the error list of the result: the parser's own errors, then the scanner's, the macro extraction's, the macro application's */
__CPROVER_ensures(g_out->a.errors._n == TOT) /*@C02*/
__CPROVER_ensures(g_n0 == 0 || (OUT_E[0].line == g_l0 && OUT_E[0].file._id == g_f0 && OUT_E[0].msg._id == g_m0)) /*@C02*/
__CPROVER_ensures(N1 == 0 || SAME(OUT_E[g_n0], g_p1[0])) /*@C02*/
__CPROVER_ensures(N2 == 0 || SAME(OUT_E[g_n0 + N1], g_p2[0])) /*@C02*/
__CPROVER_ensures(N3 == 0 || SAME(OUT_E[g_n0 + N1 + N2], g_p3[0])) /*@C02*/
/* C02: marked correct exactly if there is no error (given that the mark was cleared before, as the head of Theo::parse does) */
__CPROVER_ensures(g_out->a.parsed_correctly == (g_pc0 ? 1 : (TOT == 0))) /*@C02*/
/* the tree handed out is the tree that was built */
__CPROVER_ensures(g_out->a.root == g_root0 && (void *)g_out->a.all_allocated_nodes._d == g_nodes0 && g_out->a.all_allocated_nodes._n == g_nnodes0) /*@C02*/
/* C15: the file requests are handed out as collected */
__CPROVER_ensures(g_out->missing_files._d == g_fr->_d && g_out->missing_files._n == g_fr->_n) /*@C15,C02*/
/* reachability (must FAIL) */
__CPROVER_ensures(!(g_n0 == 1 && N1 == 1 && N2 == 0 && N3 == 1)) /*@CANARY*/
__CPROVER_ensures(!(TOT == 0 && !g_pc0)) /*@CANARY*/;

unsigned long nondet_ulong(void);
_Bool nondet_bool(void);
void *nondet_ptr(void);
static perr_t p1[1], p2[1], p3[1];
static serr_t ae[4];
static pev_t v1, v2, v3;
static ast_t the_a;
static struct m_string frs[2];
static struct m_vec_string the_fr;
static pres_t the_out;
void w_parse_tail(void *e1, void *e2, void *e3, void *a, void *freq, void *out);
void h_parse_tail(void)
{
  __CPROVER_havoc_object(p1); __CPROVER_havoc_object(p2); __CPROVER_havoc_object(p3); __CPROVER_havoc_object(ae);
  v1._d = p1; v1._n = nondet_ulong(); v1._cap = 1; v2._d = p2; v2._n = nondet_ulong(); v2._cap = 1; v3._d = p3; v3._n = nondet_ulong(); v3._cap = 1;
  g_e1 = &v1; g_e2 = &v2; g_e3 = &v3; g_p1 = p1; g_p2 = p2; g_p3 = p3;
  g_n0 = nondet_ulong(); g_pc0 = nondet_bool(); g_root0 = nondet_ptr(); g_nodes0 = nondet_ptr(); g_nnodes0 = nondet_ulong();
  the_a.parsed_correctly = g_pc0; the_a.errors._d = ae; the_a.errors._n = g_n0; the_a.errors._cap = 4;
  the_a.all_allocated_nodes._d = g_nodes0; the_a.all_allocated_nodes._n = g_nnodes0; the_a.all_allocated_nodes._cap = g_nnodes0; the_a.root = g_root0;
  g_a = &the_a; g_ae = ae; g_l0 = ae[0].line; g_f0 = ae[0].file._id; g_m0 = ae[0].msg._id;
  the_fr._d = frs; the_fr._n = nondet_ulong(); the_fr._cap = 2; g_fr = &the_fr; g_out = &the_out;
  w_parse_tail(&v1, &v2, &v3, &the_a, &the_fr, &the_out);
  __CPROVER_assert(0, "canary: end of harness reachable (requires satisfiable)");
}
