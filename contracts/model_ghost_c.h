/* C side of model/include/model_ghost.h: the ghost globals of the container model */
#ifndef MODEL_GHOST_C_H
#define MODEL_GHOST_C_H
extern unsigned long model_g_map, model_g_set;
extern unsigned long model_last_map, model_last_set, model_last2_map, model_last2_set, model_last3_map, model_last3_set;
extern unsigned long model_pick_map, model_pick_set, model_pick2_map, model_pick2_set, model_pick3_map, model_pick3_set;
extern unsigned long model_hint_map, model_hint_set;
extern unsigned long model_g_vec;
#define NONE (~0ul)
#define SKIP (~0ul - 1)
/* ghost globals a function doing map (set) lookups writes: part of its assigns clause */
#define MODEL_MAP_GHOSTS model_last_map, model_last2_map, model_last3_map, model_pick_map, model_pick2_map, model_pick3_map, model_hint_map
#define MODEL_SET_GHOSTS model_last_set, model_last2_set, model_last3_set, model_pick_set, model_pick2_set, model_pick3_set, model_hint_set
#ifdef MODEL_GHOST_DEFINE
unsigned long model_g_map, model_g_set;
unsigned long model_last_map, model_last_set, model_last2_map, model_last2_set, model_last3_map, model_last3_set;
unsigned long model_pick_map, model_pick_set, model_pick2_map, model_pick2_set, model_pick3_map, model_pick3_set;
unsigned long model_hint_map, model_hint_set;
unsigned long model_g_vec;
unsigned long nondet_ulong(void);
static void model_ghost_havoc(void)
{
  model_g_map = nondet_ulong(); model_g_set = nondet_ulong();
  model_last_map = nondet_ulong(); model_last_set = nondet_ulong(); model_last2_map = nondet_ulong(); model_last2_set = nondet_ulong();
  model_last3_map = nondet_ulong(); model_last3_set = nondet_ulong();
  model_pick_map = nondet_ulong(); model_pick_set = nondet_ulong(); model_pick2_map = nondet_ulong(); model_pick2_set = nondet_ulong();
  model_pick3_map = nondet_ulong(); model_pick3_set = nondet_ulong();
  model_hint_map = NONE; model_hint_set = NONE; model_g_vec = nondet_ulong();
}
#endif
#endif
