/* shared by contracts/scan.c and contracts/scan.loops.json.in (expanded with gcc -E) */
#ifndef LOOP_INV_CONTEXT
struct m_vec_Scanner *g_ss;  /* exists_scanner: the stack */
long g_key;
unsigned long g_a, g_b, g_e; /* arbitrary stack positions / error index */
struct m_vec_Scanner *g_ls;  /* Theo::scan: lex_stack, errors, res (locals, recorded by the N12 hook) */
struct m_vec_ParseError *g_er;
struct m_vec_Token *g_rs;
struct m_map_string_string *g_fl;
struct m_ScanResult *g_out;
long g_main;
_Bool g_yy_inc;                              /* ghost automaton of the yylex contract */
unsigned long g_yy_unknown, g_yy_expected;  /* events seen by yylex */
unsigned long g_cnt_unknown, g_cnt_expected; /* reports made (N12 hook) */
#endif
#define OLD(e) __CPROVER_old(e)
#define PN(q) ((unsigned long)(q))
#define FL_N (g_fl->_n)
#define FL (g_fl->_d)
#define OUT_NT (g_out->toks._n)
#define OUT_T (g_out->toks._d)
#define OUT_NE (g_out->errors._n)
#define OUT_E (g_out->errors._d)
#define LS_N (g_ls->_n)
#define LS (g_ls->_d)
#define IS_SCANNER_KIND(k) ((k) == PE_MAIN_FILE_NOT_FOUND || (k) == PE_UNKNOWN_TOKEN || (k) == PE_EXPECTED_FILENAME || (k) == PE_FILE_NOT_FOUND || (k) == PE_RECURSIVE_INCLUDE)
#define ABSENT(id) (!(model_g_map < FL_N && FL[model_g_map].first._id == (id)))
#define ERR_SHAPE(e) (IS_SCANNER_KIND((e).t) && \
  ((e).t != PE_MAIN_FILE_NOT_FOUND || ((e).file_request._id == g_main && (e).file._id == LIT__ && (e).line == -1 && ABSENT(g_main))) && \
  ((e).t != PE_FILE_NOT_FOUND || ABSENT((e).file_request._id)) && \
  ((e).t == PE_MAIN_FILE_NOT_FOUND || (e).t == PE_FILE_NOT_FOUND || (e).file_request._id == 0))
#define VEC_OK(v) ((v)->_d != 0 && (v)->_n <= (v)->_cap && (v)->_cap <= 2147483647)
/* no file is being scanned twice: the stack positions g_a < g_b read different files */
#define DISTINCT (!(g_a < g_b && g_b < LS_N) || LS[g_a].f._id != LS[g_b].f._id)
