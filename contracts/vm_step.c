/* Step contracts of Theo::VM::executeSingle — one variant contract per opcode
 * (DESIGN.md section 4).  Each is attached to the REAL function body through the extern "C"
 * forwarding wrapper w_executeSingle with
 *     goto-instrument --dfcc h_step --enforce-contract w_executeSingle/c_step_<OP>
 * The ensures clauses are the reference small-step semantics of the bytecode (C01a), the
 * type-soundness theorem (C03), the frame-layout invariant (C19), value range (C20), the
 * stop/return-value specification (C06) and debugger transparency of the step (C05).
 * No quantifiers: universal conclusions use the unconstrained ghost indices g_k / g_g.  */
#include "vm_common.h"
#ifdef SPEC_CHECKS_OFF
#pragma CPROVER check push
#pragma CPROVER check disable "pointer"
#pragma CPROVER check disable "bounds"
#pragma CPROVER check disable "signed-overflow"
#pragma CPROVER check disable "conversion"
#pragma CPROVER check disable "pointer-overflow"
#pragma CPROVER check disable "pointer-primitive"
#endif

unsigned long g_k, g_g, g_c;
int g_old;
int *g_fs, *g_pend;
_Bool *g_isroot;
unsigned long *g_data_n;
int **g_data_d;
int g_sel;
/* pre-state snapshots for counterexample decoding: havocked by the harness, tied by CEX_TIE in requires,
 * so the trace shows the witness state independently of CBMC's heap-object naming (probe 10) */
int cex_ip, cex_op, cex_p0, cex_p1, cex_p2, cex_stepping;
unsigned long cex_n, cex_m, cex_d, cex_nsm;
int cex_t_ds, cex_t_sz, cex_t_rt, cex_t_ra, cex_t_di, cex_u_ds, cex_u_sz, cex_u_rt, cex_u_ra, cex_u_di;
int cex_w_t0, cex_w_t1, cex_w_t2, cex_w_u1;
#define INR(a, m) ((long)(a) >= 0 && (long)(a) < (long)(m))
#define REQ_CEX_TIE(p)                                                                    \
  __CPROVER_requires(cex_ip == IP(p) && cex_op == OPC(p, IP(p)) && cex_p0 == PAR(p, IP(p), 0) &&        \
                     cex_p1 == PAR(p, IP(p), 1) && cex_p2 == PAR(p, IP(p), 2) && cex_stepping == STEPPING(p) && \
                     cex_n == N(p) && cex_m == M(p) && cex_d == D(p) && cex_nsm == NSM(p))  \
  __CPROVER_requires(D(p) < 1 || (cex_t_ds == TOP(p).data_start && cex_t_sz == TOP(p).seg_size &&       \
                                  cex_t_rt == TOP(p).ret_target && cex_t_ra == TOP(p).ret_addr &&       \
                                  cex_t_di == TOP(p).debug_info))                          \
  __CPROVER_requires(D(p) < 1 || !INR((long)cex_t_ds + cex_p0, M(p)) || cex_w_t0 == DATA(p)[(long)cex_t_ds + cex_p0]) \
  __CPROVER_requires(D(p) < 1 || !INR((long)cex_t_ds + cex_p1, M(p)) || cex_w_t1 == DATA(p)[(long)cex_t_ds + cex_p1]) \
  __CPROVER_requires(D(p) < 1 || !INR((long)cex_t_ds + cex_p2, M(p)) || cex_w_t2 == DATA(p)[(long)cex_t_ds + cex_p2]) \
  __CPROVER_requires(D(p) < 2 || (cex_u_ds == TOP1(p).data_start && cex_u_sz == TOP1(p).seg_size &&     \
                                  cex_u_rt == TOP1(p).ret_target && cex_u_ra == TOP1(p).ret_addr &&     \
                                  cex_u_di == TOP1(p).debug_info))                         \
  __CPROVER_requires(D(p) < 2 || !INR((long)cex_u_ds + cex_p1, M(p)) || cex_w_u1 == DATA(p)[(long)cex_u_ds + cex_p1])

#define OLD(e) __CPROVER_old(e)
#define I0(p) IP(p)
#define P_(p, j) PAR(p, IP(p), j)
#define BASE(p) (TOP(p).data_start)
#define CELL(p, r) (DATA(p)[BASE(p) + (r)])

#define TIE(p) (g_data_n == &V(p)->data._n && g_data_d == &V(p)->data._d)
#define REQ_STEP(p, OPX)                                                                  \
  REQ_VM_SHAPE(p)                                                                         \
  __CPROVER_requires(OPC(p, IP(p)) == (OPX))                                              \
  REQ_INV(p)                                                                              \
  __CPROVER_requires(TIE(p))                                                              \
  REQ_CEX_TIE(p)
#define NONROOT(p) (IP(p) >= 1)

/* -------------------------------------------------------------- POTENTIAL_BREAK / BREAK / HALT */
_Bool c_step_POTENTIAL_BREAK(void *p)
REQ_STEP(p, OP_POTENTIAL_BREAK)
__CPROVER_requires(NONROOT(p) && PLAIN_NEXT(p, IP(p)))
__CPROVER_assigns(IP(p))
__CPROVER_ensures(IP(p) == OLD(IP(p)) + 1) /*@C01,C05,C06*/
__CPROVER_ensures(__CPROVER_return_value == OLD(STEPPING(p))) /*@C06*/
__CPROVER_ensures(POST_CUR(p)) /*@C03*/
__CPROVER_ensures(POST_FR(p)) /*@C19,C03*/
__CPROVER_ensures(NAT_G(p)) /*@C20,C03*/;

_Bool c_step_BREAK(void *p)
REQ_STEP(p, OP_BREAK)
__CPROVER_requires(NONROOT(p) && PLAIN_NEXT(p, IP(p)))
__CPROVER_assigns(IP(p))
__CPROVER_ensures(IP(p) == OLD(IP(p)) + 1) /*@C01,C05,C06*/
__CPROVER_ensures(__CPROVER_return_value == 1) /*@C06*/
__CPROVER_ensures(POST_CUR(p)) /*@C03*/
__CPROVER_ensures(POST_FR(p)) /*@C19,C03*/
__CPROVER_ensures(NAT_G(p)) /*@C20,C03*/;

_Bool c_step_HALT(void *p)
REQ_STEP(p, OP_HALT)
__CPROVER_assigns()
__CPROVER_ensures(__CPROVER_return_value == 1) /*@C06*/
__CPROVER_ensures(POST_CUR(p)) /*@C03*/
__CPROVER_ensures(POST_FR(p)) /*@C19,C03*/
__CPROVER_ensures(NAT_G(p)) /*@C20,C03*/;

/* -------------------------------------------------------------- ADD_CONST */
#define ADD_T(p) P_(p, PI_add_target)
#define ADD_S(p) P_(p, PI_add_source)
#define ADD_C(p) P_(p, PI_add_constant)
_Bool c_step_ADD_CONST(void *p)
REQ_STEP(p, OP_ADD_CONST)
__CPROVER_requires(NONROOT(p) && PLAIN_NEXT(p, IP(p)) && REG_IN(IP(p), ADD_T(p)) && REG_IN(IP(p), ADD_S(p)))
__CPROVER_requires(CELL(p, ADD_S(p)) >= 0) /* I3 instantiated at the word read */
__CPROVER_assigns(IP(p), CELL(p, ADD_T(p)))
__CPROVER_ensures(__CPROVER_return_value == 0) /*@C06*/
__CPROVER_ensures(IP(p) == OLD(IP(p)) + 1) /*@C01,C05,C06*/
/* x + c, truncated at 0, whenever the mathematical result fits the word (C01, C20) */
__CPROVER_ensures((long)OLD(CELL(p, ADD_S(p))) + (long)OLD(ADD_C(p)) > INT_MAX || /*@C01,C05,C20*/
                  (long)DATA(p)[OLD(BASE(p)) + OLD(ADD_T(p))] ==
                      ((long)OLD(CELL(p, ADD_S(p))) + (long)OLD(ADD_C(p)) > 0
                           ? (long)OLD(CELL(p, ADD_S(p))) + (long)OLD(ADD_C(p))
                           : 0L))
/* a defined natural number in every case, also when the sum leaves the word range (C20) */
__CPROVER_ensures(DATA(p)[OLD(BASE(p)) + OLD(ADD_T(p))] >= 0) /*@C01,C05,C20*/
__CPROVER_ensures(POST_CUR(p)) /*@C03*/
__CPROVER_ensures(POST_FR(p)) /*@C19,C03*/
__CPROVER_ensures(NAT_G(p)) /*@C20,C03*/;

/* -------------------------------------------------------------- TEST */
#define TST_T(p) P_(p, PI_test_target)
#define TST_A(p) P_(p, PI_test_op1)
#define TST_B(p) P_(p, PI_test_op2)
_Bool c_step_TEST(void *p)
REQ_STEP(p, OP_TEST)
__CPROVER_requires(NONROOT(p) && PLAIN_NEXT(p, IP(p)) && REG_IN(IP(p), TST_T(p)) && REG_IN(IP(p), TST_A(p)) &&
                   REG_IN(IP(p), TST_B(p)))
__CPROVER_assigns(IP(p), CELL(p, TST_T(p)))
__CPROVER_ensures(__CPROVER_return_value == 0) /*@C06*/
__CPROVER_ensures(IP(p) == OLD(IP(p)) + 1) /*@C01,C05,C06*/
__CPROVER_ensures(DATA(p)[OLD(BASE(p)) + OLD(TST_T(p))] == (OLD(CELL(p, TST_A(p))) == OLD(CELL(p, TST_B(p))) ? 0 : 1)) /*@C01,C05*/
__CPROVER_ensures(POST_CUR(p)) /*@C03*/
__CPROVER_ensures(POST_FR(p)) /*@C19,C03*/
__CPROVER_ensures(NAT_G(p)) /*@C20,C03*/;

/* -------------------------------------------------------------- CONST */
#define CST_T(p) P_(p, PI_constant_target)
#define CST_C(p) P_(p, PI_constant_constant)
_Bool c_step_CONST(void *p)
REQ_STEP(p, OP_CONST)
__CPROVER_requires(NONROOT(p) && PLAIN_NEXT(p, IP(p)) && REG_IN(IP(p), CST_T(p)) && CST_C(p) >= 0)
__CPROVER_assigns(IP(p), CELL(p, CST_T(p)))
__CPROVER_ensures(__CPROVER_return_value == 0) /*@C06*/
__CPROVER_ensures(IP(p) == OLD(IP(p)) + 1) /*@C01,C05,C06*/
__CPROVER_ensures(DATA(p)[OLD(BASE(p)) + OLD(CST_T(p))] == OLD(CST_C(p))) /*@C01,C05*/
__CPROVER_ensures(POST_CUR(p)) /*@C03*/
__CPROVER_ensures(POST_FR(p)) /*@C19,C03*/
__CPROVER_ensures(NAT_G(p)) /*@C20,C03*/;

/* -------------------------------------------------------------- JMP / JMPC */
#define JMP_TGT_OK(p, off)                                                                \
  ((long)IP(p) + (long)(off) >= 1 && (long)IP(p) + (long)(off) < (long)N(p) &&            \
   SAME_ROUTINE(IP(p), IP(p) + (off)) && PEND(IP(p) + (off)) == -1)
_Bool c_step_JMP(void *p)
REQ_STEP(p, OP_JMP)
__CPROVER_requires(NONROOT(p) && PEND(IP(p)) == -1 && JMP_TGT_OK(p, P_(p, PI_jmp_offset)))
__CPROVER_assigns(IP(p))
__CPROVER_ensures(__CPROVER_return_value == 0) /*@C06*/
__CPROVER_ensures(IP(p) == OLD(IP(p)) + OLD(P_(p, PI_jmp_offset))) /*@C01,C05,C06*/
__CPROVER_ensures(POST_CUR(p)) /*@C03*/
__CPROVER_ensures(POST_FR(p)) /*@C19,C03*/
__CPROVER_ensures(NAT_G(p)) /*@C20,C03*/;

#define JC_S(p) P_(p, PI_jmpc_source)
_Bool c_step_JMPC(void *p)
REQ_STEP(p, OP_JMPC)
__CPROVER_requires(NONROOT(p) && PLAIN_NEXT(p, IP(p)) && JMP_TGT_OK(p, P_(p, PI_jmpc_offset)) &&
                   REG_IN(IP(p), JC_S(p)))
__CPROVER_assigns(IP(p))
__CPROVER_ensures(__CPROVER_return_value == 0) /*@C06*/
__CPROVER_ensures(IP(p) == (OLD(CELL(p, JC_S(p))) == 0 ? OLD(IP(p)) + OLD(P_(p, PI_jmpc_offset)) : OLD(IP(p)) + 1)) /*@C01,C05,C06*/
__CPROVER_ensures(POST_CUR(p)) /*@C03*/
__CPROVER_ensures(POST_FR(p)) /*@C19,C03*/
__CPROVER_ensures(NAT_G(p)) /*@C20,C03*/;

/* -------------------------------------------------------------- PREPARE_EXEC */
#define PR_CNT(p) P_(p, PI_prepare_count)
#define PR_IDX(p) P_(p, PI_prepare_index)
#define PR_TGT(p) P_(p, PI_prepare_target)
#define PREPARE_WF(p)                                                                     \
  (PR_CNT(p) >= 0 && PR_IDX(p) >= 0 && (unsigned long)PR_IDX(p) < NSM(p) &&               \
   (unsigned long)IP(p) + 1 < N(p) &&                                                     \
   (IP(p) == 0 ? (FS(1) == PR_CNT(p) && ISROOT(1) && PEND(1) == -1)                       \
               : (PEND(IP(p)) == -1 && REG_IN(IP(p), PR_TGT(p)) && SAME_ROUTINE(IP(p), IP(p) + 1) && \
                  PEND(IP(p) + 1) >= 1 && (unsigned long)PEND(IP(p) + 1) < N(p) &&        \
                  FS(PEND(IP(p) + 1)) == PR_CNT(p))))
_Bool c_step_PREPARE_EXEC(void *p)
REQ_STEP(p, OP_PREPARE_EXEC)
__CPROVER_requires(PREPARE_WF(p))
/* T3: allocation succeeds and sizes fit the VM's int */
__CPROVER_requires(M(p) + (unsigned long)PR_CNT(p) <= MCAP(p) && D(p) < DCAP(p))
__CPROVER_assigns(IP(p), V(p)->data._n, V(p)->stack._n, A(p, D(p)),
                  __CPROVER_object_upto(DATA(p) + M(p), (unsigned long)PR_CNT(p) * sizeof(int)))
__CPROVER_ensures(__CPROVER_return_value == 0) /*@C06*/
__CPROVER_ensures(IP(p) == OLD(IP(p)) + 1) /*@C01,C05,C06*/
__CPROVER_ensures(M(p) == OLD(M(p)) + (unsigned long)OLD(PR_CNT(p))) /*@C19,C01,C03*/
__CPROVER_ensures(D(p) == OLD(D(p)) + 1) /*@C19,C01,C03*/
__CPROVER_ensures(TOP(p).vm == p && TOP(p).data_start == (int)OLD(M(p)) && TOP(p).seg_size == OLD(PR_CNT(p)) && /*@C01,C03,C19*/
                  TOP(p).ret_target == OLD(PR_TGT(p)) && TOP(p).ret_addr == -1 && TOP(p).debug_info == OLD(PR_IDX(p)))
/* fresh zeroed locals (ghost word) */
__CPROVER_ensures(g_g < OLD(M(p)) || g_g >= M(p) || DATA(p)[g_g] == 0) /*@C01,C05*/
__CPROVER_ensures(POST_CUR(p)) /*@C03*/
__CPROVER_ensures(POST_FR(p)) /*@C19,C03*/
__CPROVER_ensures(NAT_G(p)) /*@C20,C03*/;

/* -------------------------------------------------------------- ARG */
#define ARG_T(p) P_(p, PI_arg_target)
#define ARG_S(p) P_(p, PI_arg_source)
_Bool c_step_ARG(void *p)
REQ_STEP(p, OP_ARG)
__CPROVER_requires(NONROOT(p) && PEND(IP(p)) != -1 && (unsigned long)IP(p) + 1 < N(p) &&
                   PEND(IP(p) + 1) == PEND(IP(p)) && SAME_ROUTINE(IP(p), IP(p) + 1) &&
                   REG_IN(PEND(IP(p)), ARG_T(p)) && REG_IN(IP(p), ARG_S(p)))
__CPROVER_requires(DATA(p)[TOP1(p).data_start + ARG_S(p)] >= 0)
__CPROVER_assigns(IP(p), CELL(p, ARG_T(p)))
__CPROVER_ensures(__CPROVER_return_value == 0) /*@C06*/
__CPROVER_ensures(IP(p) == OLD(IP(p)) + 1) /*@C01,C05,C06*/
__CPROVER_ensures(DATA(p)[OLD(BASE(p)) + OLD(ARG_T(p))] == OLD(DATA(p)[TOP1(p).data_start + ARG_S(p)])) /*@C01,C05*/
__CPROVER_ensures(POST_CUR(p)) /*@C03*/
__CPROVER_ensures(POST_FR(p)) /*@C19,C03*/
__CPROVER_ensures(NAT_G(p)) /*@C20,C03*/;

/* -------------------------------------------------------------- EXEC */
#define EX_E(p) P_(p, PI_exec_entry)
_Bool c_step_EXEC(void *p)
REQ_STEP(p, OP_EXEC)
__CPROVER_requires(NONROOT(p) && EX_E(p) >= 1 && (unsigned long)EX_E(p) < N(p) && PEND(IP(p)) == EX_E(p) &&
                   PEND(EX_E(p)) == -1 && !ISROOT(EX_E(p)) && (unsigned long)IP(p) + 1 < N(p) &&
                   PEND(IP(p) + 1) == -1 && SAME_ROUTINE(IP(p), IP(p) + 1))
__CPROVER_assigns(IP(p), TOP(p).ret_addr)
__CPROVER_ensures(__CPROVER_return_value == 0) /*@C06*/
__CPROVER_ensures(IP(p) == OLD(EX_E(p))) /*@C01,C05,C06*/
__CPROVER_ensures(TOP(p).ret_addr == OLD(IP(p)) + 1) /*@C01,C05*/
__CPROVER_ensures(POST_CUR(p)) /*@C03*/
__CPROVER_ensures(POST_FR(p)) /*@C19,C03*/
__CPROVER_ensures(NAT_G(p)) /*@C20,C03*/;

/* -------------------------------------------------------------- RET */
#define RET_S(p) P_(p, PI_ret_source)
_Bool c_step_RET(void *p)
REQ_STEP(p, OP_RET)
__CPROVER_requires(NONROOT(p) && PEND(IP(p)) == -1 && !ISROOT(IP(p)) && REG_IN(IP(p), RET_S(p)))
__CPROVER_requires(CELL(p, RET_S(p)) >= 0)
__CPROVER_assigns(IP(p), V(p)->stack._n, V(p)->data._n, DATA(p)[TOP1(p).data_start + TOP(p).ret_target])
__CPROVER_ensures(__CPROVER_return_value == 0) /*@C06*/
__CPROVER_ensures(IP(p) == OLD(TOP(p).ret_addr)) /*@C01,C05,C06*/
__CPROVER_ensures(D(p) == OLD(D(p)) - 1) /*@C19,C01,C03*/
/* result copied into the caller's target register */
__CPROVER_ensures(DATA(p)[OLD(TOP1(p).data_start) + OLD(TOP(p).ret_target)] == OLD(CELL(p, RET_S(p)))) /*@C01,C05*/
/* C19: returning releases the callee frame */
__CPROVER_ensures(M(p) == (unsigned long)OLD(TOP(p).data_start)) /*@C19,C01,C03*/
__CPROVER_ensures(POST_CUR(p)) /*@C03*/
__CPROVER_ensures(POST_FR(p)) /*@C19,C03*/
__CPROVER_ensures(NAT_G(p)) /*@C20,C03*/;

#ifdef SPEC_CHECKS_OFF
#pragma CPROVER check pop
#endif
/* -------------------------------------------------------------- harness + reachability canaries */
_Bool w_executeSingle(void *p);
unsigned long nondet_ulong(void);
int nondet_int(void);
unsigned long *nondet_pul(void);
int **nondet_ppi(void);
void h_step(void)
{
  void *p;
  g_k = nondet_ulong();
  g_g = nondet_ulong();
  g_c = nondet_ulong();
  g_old = nondet_int();
  cex_ip = nondet_int(); cex_op = nondet_int(); cex_p0 = nondet_int(); cex_p1 = nondet_int(); cex_p2 = nondet_int();
  cex_stepping = nondet_int(); cex_n = nondet_ulong(); cex_m = nondet_ulong(); cex_d = nondet_ulong();
  cex_nsm = nondet_ulong();
  cex_t_ds = nondet_int(); cex_t_sz = nondet_int(); cex_t_rt = nondet_int(); cex_t_ra = nondet_int();
  cex_t_di = nondet_int(); cex_u_ds = nondet_int(); cex_u_sz = nondet_int(); cex_u_rt = nondet_int();
  cex_u_ra = nondet_int(); cex_u_di = nondet_int();
  cex_w_t0 = nondet_int(); cex_w_t1 = nondet_int(); cex_w_t2 = nondet_int(); cex_w_u1 = nondet_int();
  g_data_n = nondet_pul(); g_data_d = nondet_ppi();
  w_executeSingle(p);
  __CPROVER_assert(0, "canary: end of harness reachable (requires satisfiable)");
}
