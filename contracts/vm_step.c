/* Step contracts of Theo::VM::executeSingle — one variant contract per opcode
 * (DESIGN.md section 4).  Each is attached to the REAL function body through the extern "C"
 * forwarding wrapper w_executeSingle with
 *     goto-instrument --dfcc h_step --enforce-contract w_executeSingle/c_step_<OP>
 * The ensures clauses are the reference small-step semantics of the bytecode (C01a), the
 * type-soundness theorem (C03), the frame-layout invariant (C19), value range (C20), the
 * stop/return-value specification (C06) and debugger transparency of the step (C05).
 * No quantifiers: universal conclusions use the unconstrained ghost indices g_k / g_g.  */
#include "vm_common.h"
#include "vm_step_macros.h"
#ifdef SPEC_CHECKS_OFF
#pragma CPROVER check push
#pragma CPROVER check disable "pointer"
#pragma CPROVER check disable "bounds"
#pragma CPROVER check disable "signed-overflow"
#pragma CPROVER check disable "conversion"
#pragma CPROVER check disable "pointer-overflow"
#pragma CPROVER check disable "pointer-primitive"
#endif

unsigned long g_k, g_g, g_c;
int g_old;
int *g_fs, *g_pend;
_Bool *g_isroot;
unsigned long *g_data_n;
int **g_data_d;
int g_sel;
vm_t *g_vm;
/* pre-state snapshots for counterexample decoding: havocked by the harness, tied by CEX_TIE in requires,
 * so the trace shows the witness state independently of CBMC's heap-object naming (probe 10) */
int cex_ip, cex_op, cex_p0, cex_p1, cex_p2, cex_stepping;
unsigned long cex_n, cex_m, cex_d, cex_nsm;
int cex_t_ds, cex_t_sz, cex_t_rt, cex_t_ra, cex_t_di, cex_u_ds, cex_u_sz, cex_u_rt, cex_u_ra, cex_u_di;
int cex_w_t0, cex_w_t1, cex_w_t2, cex_w_u1;



/* -------------------------------------------------------------- POTENTIAL_BREAK / BREAK / HALT */
_Bool c_step_POTENTIAL_BREAK(void *p)
REQ_STEP(p, OP_POTENTIAL_BREAK)
__CPROVER_requires(NONROOT(p) && PLAIN_NEXT(p, IP(p)))
__CPROVER_assigns(IP(p))
__CPROVER_ensures(IP(p) == OLD(IP(p)) + 1) /*@C01,C05,C06*/
__CPROVER_ensures(__CPROVER_return_value == OLD(STEPPING(p))) /*@C06*/
__CPROVER_ensures(POST_CUR(p)) /*@C03*/
__CPROVER_ensures(POST_FR(p)) /*@C19,C03*/
__CPROVER_ensures(NAT_G(p)) /*@C20,C03*/;

_Bool c_step_BREAK(void *p)
REQ_STEP(p, OP_BREAK)
__CPROVER_requires(NONROOT(p) && PLAIN_NEXT(p, IP(p)))
__CPROVER_assigns(IP(p))
__CPROVER_ensures(IP(p) == OLD(IP(p)) + 1) /*@C01,C05,C06*/
__CPROVER_ensures(__CPROVER_return_value == 1) /*@C06*/
__CPROVER_ensures(POST_CUR(p)) /*@C03*/
__CPROVER_ensures(POST_FR(p)) /*@C19,C03*/
__CPROVER_ensures(NAT_G(p)) /*@C20,C03*/;

_Bool c_step_HALT(void *p)
REQ_STEP(p, OP_HALT)
__CPROVER_assigns()
__CPROVER_ensures(__CPROVER_return_value == 1) /*@C06*/
__CPROVER_ensures(POST_CUR(p)) /*@C03*/
__CPROVER_ensures(POST_FR(p)) /*@C19,C03*/
__CPROVER_ensures(NAT_G(p)) /*@C20,C03*/;

/* -------------------------------------------------------------- ADD_CONST */
_Bool c_step_ADD_CONST(void *p)
REQ_STEP(p, OP_ADD_CONST)
__CPROVER_requires(NONROOT(p) && PLAIN_NEXT(p, IP(p)) && REG_IN(IP(p), ADD_T(p)) && REG_IN(IP(p), ADD_S(p)))
__CPROVER_requires(CELL(p, ADD_S(p)) >= 0) /* I3 instantiated at the word read */
__CPROVER_assigns(IP(p), CELL(p, ADD_T(p)))
__CPROVER_ensures(__CPROVER_return_value == 0) /*@C06*/
__CPROVER_ensures(IP(p) == OLD(IP(p)) + 1) /*@C01,C05,C06*/
/* x + c, truncated at 0, whenever the mathematical result fits the word (C01, C20) */
__CPROVER_ensures((long)OLD(CELL(p, ADD_S(p))) + (long)OLD(ADD_C(p)) > INT_MAX || /*@C01,C05,C20*/
                  (long)DATA(p)[OLD(BASE(p)) + OLD(ADD_T(p))] ==
                      ((long)OLD(CELL(p, ADD_S(p))) + (long)OLD(ADD_C(p)) > 0
                           ? (long)OLD(CELL(p, ADD_S(p))) + (long)OLD(ADD_C(p))
                           : 0L))
/* a defined natural number in every case, also when the sum leaves the word range (C20) */
__CPROVER_ensures(DATA(p)[OLD(BASE(p)) + OLD(ADD_T(p))] >= 0) /*@C01,C05,C20*/
__CPROVER_ensures(POST_CUR(p)) /*@C03*/
__CPROVER_ensures(POST_FR(p)) /*@C19,C03*/
__CPROVER_ensures(NAT_G(p)) /*@C20,C03*/
/* reachability of the cases (each must FAIL) */
__CPROVER_ensures((long)OLD(CELL(p, ADD_S(p))) + (long)OLD(ADD_C(p)) <= INT_MAX) /*@CANARY*/
__CPROVER_ensures((long)OLD(CELL(p, ADD_S(p))) + (long)OLD(ADD_C(p)) > 0) /*@CANARY*/
__CPROVER_ensures((long)OLD(CELL(p, ADD_S(p))) + (long)OLD(ADD_C(p)) <= 0 || (long)OLD(CELL(p, ADD_S(p))) + (long)OLD(ADD_C(p)) > INT_MAX) /*@CANARY*/;

/* -------------------------------------------------------------- TEST */
_Bool c_step_TEST(void *p)
REQ_STEP(p, OP_TEST)
__CPROVER_requires(NONROOT(p) && PLAIN_NEXT(p, IP(p)) && REG_IN(IP(p), TST_T(p)) && REG_IN(IP(p), TST_A(p)) &&
                   REG_IN(IP(p), TST_B(p)))
__CPROVER_assigns(IP(p), CELL(p, TST_T(p)))
__CPROVER_ensures(__CPROVER_return_value == 0) /*@C06*/
__CPROVER_ensures(IP(p) == OLD(IP(p)) + 1) /*@C01,C05,C06*/
__CPROVER_ensures(DATA(p)[OLD(BASE(p)) + OLD(TST_T(p))] == (OLD(CELL(p, TST_A(p))) == OLD(CELL(p, TST_B(p))) ? 0 : 1)) /*@C01,C05*/
__CPROVER_ensures(POST_CUR(p)) /*@C03*/
__CPROVER_ensures(POST_FR(p)) /*@C19,C03*/
__CPROVER_ensures(NAT_G(p)) /*@C20,C03*/;

/* -------------------------------------------------------------- CONST */
_Bool c_step_CONST(void *p)
REQ_STEP(p, OP_CONST)
__CPROVER_requires(NONROOT(p) && PLAIN_NEXT(p, IP(p)) && REG_IN(IP(p), CST_T(p)) && CST_C(p) >= 0)
__CPROVER_assigns(IP(p), CELL(p, CST_T(p)))
__CPROVER_ensures(__CPROVER_return_value == 0) /*@C06*/
__CPROVER_ensures(IP(p) == OLD(IP(p)) + 1) /*@C01,C05,C06*/
__CPROVER_ensures(DATA(p)[OLD(BASE(p)) + OLD(CST_T(p))] == OLD(CST_C(p))) /*@C01,C05*/
__CPROVER_ensures(POST_CUR(p)) /*@C03*/
__CPROVER_ensures(POST_FR(p)) /*@C19,C03*/
__CPROVER_ensures(NAT_G(p)) /*@C20,C03*/;

/* -------------------------------------------------------------- JMP / JMPC */
_Bool c_step_JMP(void *p)
REQ_STEP(p, OP_JMP)
__CPROVER_requires(NONROOT(p) && PEND(IP(p)) == -1 && JMP_TGT_OK(p, P_(p, PI_jmp_offset)))
__CPROVER_assigns(IP(p))
__CPROVER_ensures(__CPROVER_return_value == 0) /*@C06*/
__CPROVER_ensures(IP(p) == OLD(IP(p)) + OLD(P_(p, PI_jmp_offset))) /*@C01,C05,C06*/
__CPROVER_ensures(POST_CUR(p)) /*@C03*/
__CPROVER_ensures(POST_FR(p)) /*@C19,C03*/
__CPROVER_ensures(NAT_G(p)) /*@C20,C03*/;

_Bool c_step_JMPC(void *p)
REQ_STEP(p, OP_JMPC)
__CPROVER_requires(NONROOT(p) && PLAIN_NEXT(p, IP(p)) && JMP_TGT_OK(p, P_(p, PI_jmpc_offset)) &&
                   REG_IN(IP(p), JC_S(p)))
__CPROVER_assigns(IP(p))
__CPROVER_ensures(__CPROVER_return_value == 0) /*@C06*/
__CPROVER_ensures(IP(p) == (OLD(CELL(p, JC_S(p))) == 0 ? OLD(IP(p)) + OLD(P_(p, PI_jmpc_offset)) : OLD(IP(p)) + 1)) /*@C01,C05,C06*/
__CPROVER_ensures(POST_CUR(p)) /*@C03*/
__CPROVER_ensures(POST_FR(p)) /*@C19,C03*/
__CPROVER_ensures(NAT_G(p)) /*@C20,C03*/
/* reachability of the cases (each must FAIL) */
__CPROVER_ensures(OLD(CELL(p, JC_S(p))) == 0) /*@CANARY*/
__CPROVER_ensures(OLD(CELL(p, JC_S(p))) != 0) /*@CANARY*/;

/* -------------------------------------------------------------- PREPARE_EXEC */
_Bool c_step_PREPARE_EXEC(void *p)
REQ_STEP(p, OP_PREPARE_EXEC)
#ifdef PREPARE_BOUNDED
__CPROVER_requires(PR_CNT(p) <= PREPARE_BOUNDED) /* bounded stand-in group only */
#endif
__CPROVER_requires(PREPARE_WF(p))
/* T3: allocation succeeds and sizes fit the VM's int */
__CPROVER_requires(M(p) + (unsigned long)PR_CNT(p) <= MCAP(p) && D(p) < DCAP(p))
__CPROVER_assigns(IP(p), V(p)->data._n, V(p)->stack._n, A(p, D(p)),
                  __CPROVER_object_upto(DATA(p) + M(p), (unsigned long)PR_CNT(p) * sizeof(int)))
__CPROVER_ensures(__CPROVER_return_value == 0) /*@C06*/
__CPROVER_ensures(IP(p) == OLD(IP(p)) + 1) /*@C01,C05,C06*/
__CPROVER_ensures(M(p) == OLD(M(p)) + (unsigned long)OLD(PR_CNT(p))) /*@C19,C01,C03*/
__CPROVER_ensures(D(p) == OLD(D(p)) + 1) /*@C19,C01,C03*/
__CPROVER_ensures(TOP(p).vm == p && TOP(p).data_start == (int)OLD(M(p)) && TOP(p).seg_size == OLD(PR_CNT(p)) && /*@C01,C03,C19*/
                  TOP(p).ret_target == OLD(PR_TGT(p)) && TOP(p).ret_addr == -1 && TOP(p).debug_info == OLD(PR_IDX(p)))
/* fresh zeroed locals (ghost word) */
__CPROVER_ensures(g_g < OLD(M(p)) || g_g >= M(p) || DATA(p)[g_g] == 0) /*@C01,C05*/
__CPROVER_ensures(POST_CUR(p)) /*@C03*/
__CPROVER_ensures(POST_FR(p)) /*@C19,C03*/
__CPROVER_ensures(NAT_G(p)) /*@C20,C03*/;

/* -------------------------------------------------------------- ARG */
_Bool c_step_ARG(void *p)
REQ_STEP(p, OP_ARG)
__CPROVER_requires(NONROOT(p) && PEND(IP(p)) != -1 && (unsigned long)IP(p) + 1 < N(p) &&
                   PEND(IP(p) + 1) == PEND(IP(p)) && SAME_ROUTINE(IP(p), IP(p) + 1) &&
                   REG_IN(PEND(IP(p)), ARG_T(p)) && REG_IN(IP(p), ARG_S(p)))
__CPROVER_requires(DATA(p)[TOP1(p).data_start + ARG_S(p)] >= 0)
__CPROVER_assigns(IP(p), CELL(p, ARG_T(p)))
__CPROVER_ensures(__CPROVER_return_value == 0) /*@C06*/
__CPROVER_ensures(IP(p) == OLD(IP(p)) + 1) /*@C01,C05,C06*/
__CPROVER_ensures(DATA(p)[OLD(BASE(p)) + OLD(ARG_T(p))] == OLD(DATA(p)[TOP1(p).data_start + ARG_S(p)])) /*@C01,C05*/
__CPROVER_ensures(POST_CUR(p)) /*@C03*/
__CPROVER_ensures(POST_FR(p)) /*@C19,C03*/
__CPROVER_ensures(NAT_G(p)) /*@C20,C03*/;

/* -------------------------------------------------------------- EXEC */
_Bool c_step_EXEC(void *p)
REQ_STEP(p, OP_EXEC)
__CPROVER_requires(NONROOT(p) && EX_E(p) >= 1 && (unsigned long)EX_E(p) < N(p) && PEND(IP(p)) == EX_E(p) &&
                   PEND(EX_E(p)) == -1 && !ISROOT(EX_E(p)) && (unsigned long)IP(p) + 1 < N(p) &&
                   PEND(IP(p) + 1) == -1 && SAME_ROUTINE(IP(p), IP(p) + 1))
__CPROVER_assigns(IP(p), TOP(p).ret_addr)
__CPROVER_ensures(__CPROVER_return_value == 0) /*@C06*/
__CPROVER_ensures(IP(p) == OLD(EX_E(p))) /*@C01,C05,C06*/
__CPROVER_ensures(TOP(p).ret_addr == OLD(IP(p)) + 1) /*@C01,C05*/
__CPROVER_ensures(POST_CUR(p)) /*@C03*/
__CPROVER_ensures(POST_FR(p)) /*@C19,C03*/
__CPROVER_ensures(NAT_G(p)) /*@C20,C03*/;

/* -------------------------------------------------------------- RET */
_Bool c_step_RET(void *p)
REQ_STEP(p, OP_RET)
__CPROVER_requires(NONROOT(p) && PEND(IP(p)) == -1 && !ISROOT(IP(p)) && REG_IN(IP(p), RET_S(p)))
__CPROVER_requires(CELL(p, RET_S(p)) >= 0)
__CPROVER_assigns(IP(p), V(p)->stack._n, V(p)->data._n, DATA(p)[TOP1(p).data_start + TOP(p).ret_target])
__CPROVER_ensures(__CPROVER_return_value == 0) /*@C06*/
__CPROVER_ensures(IP(p) == OLD(TOP(p).ret_addr)) /*@C01,C05,C06*/
__CPROVER_ensures(D(p) == OLD(D(p)) - 1) /*@C19,C01,C03*/
/* result copied into the caller's target register */
__CPROVER_ensures(DATA(p)[OLD(TOP1(p).data_start) + OLD(TOP(p).ret_target)] == OLD(CELL(p, RET_S(p)))) /*@C01,C05*/
/* C19: returning releases the callee frame */
__CPROVER_ensures(M(p) == (unsigned long)OLD(TOP(p).data_start)) /*@C19,C01,C03*/
__CPROVER_ensures(POST_CUR(p)) /*@C03*/
__CPROVER_ensures(POST_FR(p)) /*@C19,C03*/
__CPROVER_ensures(NAT_G(p)) /*@C20,C03*/;

/* -------------------------------------------------------------- the general step contract
 * One contract for all opcodes: WF(ip) is the static typing of the current instruction.  Enforced on the
 * UNSLICED real function (thorough tier cross-check of the 12 variants) and used as the callee contract
 * when VM::execute is verified (callee replaced). */
/* I3 at the word(s) the current instruction reads (instantiate-at-use of "all words are natural") */
/* T3 for PREPARE */

_Bool c_step_any(void *p)
REQ_VM_SHAPE(p)
REQ_INV(p)
#ifndef AS_CALLEE
__CPROVER_requires(TIE(p))
REQ_CEX_TIE(p)
#endif
#ifndef AS_CALLEE
/* one more instance of the universal frame invariant, needed to re-establish it at top-1 after RET; at a call
 * site it is an instance of the caller's (unstatable) universal invariant and is ASSUMED there (DESIGN.md 3.3) */
__CPROVER_requires(D(p) < 3 || FRL(p, D(p) - 3))
#endif
__CPROVER_requires(WF_IP(p))
__CPROVER_requires(NAT_READ(p))
__CPROVER_requires(ALLOC_OK(p))
__CPROVER_assigns(!IS_OP(p, OP_HALT): IP(p), V(p)->data._n, V(p)->stack._n, __CPROVER_object_whole(DATA(p)), __CPROVER_object_whole(STK(p)))
/* sizes stay within the allocated capacity (T3: no reallocation is modelled) */
__CPROVER_ensures(M(p) <= MCAP(p) && D(p) <= DCAP(p)) /*@C03*/
/* the frame invariant at the instances a caller needs next (top, top-1) */
__CPROVER_ensures(FRL(p, D(p) - 1) && (D(p) < 2 || FRL(p, D(p) - 2))) /*@C19,C03*/
__CPROVER_ensures(__CPROVER_return_value == (OLD(OPC(p, IP(p))) == OP_BREAK || OLD(OPC(p, IP(p))) == OP_HALT || (OLD(OPC(p, IP(p))) == OP_POTENTIAL_BREAK && OLD(STEPPING(p))))) /*@C06*/
__CPROVER_ensures((OLD(OPC(p, IP(p))) != OP_BREAK && OLD(OPC(p, IP(p))) != OP_POTENTIAL_BREAK) || IP(p) == OLD(IP(p)) + 1) /*@C06,C05*/
__CPROVER_ensures(OLD(OPC(p, IP(p))) != OP_HALT || IP(p) == OLD(IP(p))) /*@C06,C17*/
__CPROVER_ensures(POST_CUR(p)) /*@C03*/
__CPROVER_ensures(POST_FR(p)) /*@C19,C03*/
__CPROVER_ensures(NAT_G(p)) /*@C20,C03*/
#ifdef AS_CALLEE
/* instantiate-at-use of the universal hypotheses over the immutable program (DESIGN.md 3.3): the static
 * typing holds at the next instruction, the words it reads are natural, allocation will succeed (T3). ASSUMED. */
__CPROVER_ensures(WF_IP(p) && NAT_READ(p) && ALLOC_OK(p))
#endif
;

/* -------------------------------------------------------------- VM::execute (callee replaced by c_step_any) */
void c_execute(void *p)
REQ_VM_SHAPE(p)
REQ_INV(p)
__CPROVER_requires(g_vm == V(p))
__CPROVER_requires(WF_IP(p))
__CPROVER_requires(NAT_READ(p))
__CPROVER_requires(ALLOC_OK(p))
/* C17: from the end of the program nothing is assigned */
__CPROVER_assigns(!IS_OP(p, OP_HALT): IP(p), V(p)->data._n, V(p)->stack._n, __CPROVER_object_whole(DATA(p)), __CPROVER_object_whole(STK(p)))
/* C06: execution stops exactly at a stop: the instruction just passed is BREAK (an enabled site), or any site while
 * stepping, or the machine stands on HALT; partial correctness (execute need not terminate) */
__CPROVER_ensures(STOPPED_AT(p)) /*@C06*/
__CPROVER_ensures(POST_CUR(p)) /*@C03*/
__CPROVER_ensures(POST_FR(p)) /*@C19,C03*/
__CPROVER_ensures(NAT_G(p)) /*@C20,C03*/;

#ifdef SPEC_CHECKS_OFF
#pragma CPROVER check pop
#endif
/* -------------------------------------------------------------- harness + reachability canaries */
_Bool w_executeSingle(void *p);
unsigned long nondet_ulong(void);
int nondet_int(void);
unsigned long *nondet_pul(void);
int **nondet_ppi(void);
void h_step(void)
{
  void *p;
  g_k = nondet_ulong();
  g_g = nondet_ulong();
  g_c = nondet_ulong();
  g_old = nondet_int();
  cex_ip = nondet_int(); cex_op = nondet_int(); cex_p0 = nondet_int(); cex_p1 = nondet_int(); cex_p2 = nondet_int();
  cex_stepping = nondet_int(); cex_n = nondet_ulong(); cex_m = nondet_ulong(); cex_d = nondet_ulong();
  cex_nsm = nondet_ulong();
  cex_t_ds = nondet_int(); cex_t_sz = nondet_int(); cex_t_rt = nondet_int(); cex_t_ra = nondet_int();
  cex_t_di = nondet_int(); cex_u_ds = nondet_int(); cex_u_sz = nondet_int(); cex_u_rt = nondet_int();
  cex_u_ra = nondet_int(); cex_u_di = nondet_int();
  cex_w_t0 = nondet_int(); cex_w_t1 = nondet_int(); cex_w_t2 = nondet_int(); cex_w_u1 = nondet_int();
  g_data_n = nondet_pul(); g_data_d = nondet_ppi();
  w_executeSingle(p);
  __CPROVER_assert(0, "canary: end of harness reachable (requires satisfiable)");
}
void w_execute(void *p);
vm_t *nondet_vmp(void);
void h_execute(void)
{
  void *p;
  g_k = nondet_ulong();
  g_g = nondet_ulong();
  g_old = nondet_int();
  g_vm = nondet_vmp();
  w_execute(p);
  __CPROVER_assert(0, "canary: end of harness reachable (requires satisfiable)");
}
