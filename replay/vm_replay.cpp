// Native replay of a VM step witness against the REAL Theo::VM (built from /repo's current sources with
// -fsanitize=address,undefined -DTHEO_IDE_LIBTHEO_VERIF).  Usage: vm_replay key=value ...
// Rebuilds the witness pre-state (program array, activations, data words, flags), calls the real
// VM::executeSingle once and re-evaluates the reference step natively.  Exit 0: step agrees with the
// reference semantics and invariants; exit 3: disagreement (prints MISMATCH lines); a sanitizer report
// aborts with its own exit code (also a reproduction).
#include <climits>
#include <cstdio>
#include <cstdlib>
#include <cstring>
#include <map>
#include <string>
#include <vector>

#include "VM/include/vm.hpp"

using namespace Theo;

struct TheoVerifAccess {
  static int &ip(VM &v) { return v.instruction_pointer; }
  static bool &stepping(VM &v) { return v.stepping_mode_enabled; }
  static std::vector<int> &data(VM &v) { return v.data; }
  static std::vector<VM::Activation> &stack(VM &v) { return v.stack; }
  static Program &code(VM &v) { return v.code; }
  static VM::Activation mk(VM *v, int ds, int sz, int rt, int ra, int di) { return VM::Activation(v, ds, sz, rt, ra, di); }
  static int ds(VM::Activation &a) { return a.data_start; }
  static int sz(VM::Activation &a) { return a.seg_size; }
  static int rt(VM::Activation &a) { return a.ret_target; }
  static int ra(VM::Activation &a) { return a.ret_addr; }
  static int di(VM::Activation &a) { return a.debug_info; }
};
typedef TheoVerifAccess X;

static std::map<std::string, long long> kv;
static long long get(const char *k, long long d = 0) { return kv.count(k) ? kv[k] : d; }
static int mismatches = 0;
#define EXPECT(c, ...)                 \
  do {                                 \
    if (!(c)) {                        \
      printf("MISMATCH: " __VA_ARGS__); \
      printf("\n");                    \
      mismatches++;                    \
    }                                  \
  } while (0)

int main(int argc, char **argv) {
  for (int i = 1; i < argc; i++) {
    char *eq = strchr(argv[i], '=');
    if (!eq) continue;
    kv[std::string(argv[i], eq - argv[i])] = atoll(eq + 1);
  }
  long long n = get("cex_n"), m = get("cex_m"), d = get("cex_d"), nsm = get("cex_nsm");
  int ip = get("cex_ip"), op = get("cex_op"), p0 = get("cex_p0"), p1 = get("cex_p1"), p2 = get("cex_p2");
  if (n < 1 || n > (1 << 22) || m < 0 || m > (1 << 24) || d < 0 || d > (1 << 16) || ip < 0 || ip >= n) {
    printf("witness too large or malformed for native replay (n=%lld m=%lld d=%lld)\n", n, m, d);
    return 4;
  }
  Program prog;
  prog.code.assign(n, Instruction::Halt());
  Instruction ins;
  ins.op = (OpCode)op;
  ins.parameters.test.target = p0;
  ins.parameters.test.op1 = p1;
  ins.parameters.test.op2 = p2;
  prog.code[ip] = ins;
  prog.stack_maps.resize(nsm > 64 ? 64 : nsm);
  VM vm(prog);
  X::ip(vm) = ip;
  X::stepping(vm) = get("cex_stepping") != 0;
  std::vector<int> &data = X::data(vm);
  data.assign(m, 0);
  std::vector<VM::Activation> &st = X::stack(vm);
  // frames below top-1: one frame covering [0, u_ds) then empty frames (layout only matters at top/top-1)
  int t_ds = get("cex_t_ds"), t_sz = get("cex_t_sz"), u_ds = get("cex_u_ds"), u_sz = get("cex_u_sz");
  for (long long k = 0; k + 2 < d; k++) {
    int lo = (k == 0) ? 0 : u_ds, hi = u_ds;
    st.push_back(X::mk(&vm, lo, hi - lo, 0, 1, 0));
  }
  if (d >= 2) st.push_back(X::mk(&vm, u_ds, u_sz, get("cex_u_rt"), get("cex_u_ra"), get("cex_u_di")));
  if (d >= 1) st.push_back(X::mk(&vm, t_ds, t_sz, get("cex_t_rt"), get("cex_t_ra"), get("cex_t_di")));
  auto put = [&](long long a, long long v) {
    if (a >= 0 && a < m) data[a] = (int)v;
  };
  if (d >= 2) put((long long)u_ds + p1, get("cex_w_u1"));
  if (d >= 1) {
    put((long long)t_ds + p2, get("cex_w_t2"));
    put((long long)t_ds + p1, get("cex_w_t1"));
    put((long long)t_ds + p0, get("cex_w_t0"));
  }
  std::vector<int> before = data;
  auto cell = [&](long long a) -> long long { return (a >= 0 && a < (long long)before.size()) ? before[a] : 0; };

  bool ret = vm.executeSingle();  // the real function; ASan/UBSan abort on memory/arithmetic errors

  int ip2 = X::ip(vm);
  long long m2 = data.size(), d2 = st.size();
  bool stepping = get("cex_stepping") != 0;
  long long exp_ip = ip + 1, exp_m = m, exp_d = d;
  bool exp_ret = false;
  long long wr_addr = -1, wr_val = 0;
  switch ((OpCode)op) {
    case OpCode::POTENTIAL_BREAK: exp_ret = stepping; break;
    case OpCode::BREAK: exp_ret = true; break;
    case OpCode::HALT: exp_ret = true; exp_ip = ip; break;
    case OpCode::ADD_CONST: {
      long long s = cell((long long)t_ds + p1) + (long long)p2;
      wr_addr = (long long)t_ds + p0;
      if (s <= INT_MAX) wr_val = s > 0 ? s : 0; else wr_val = -2;  // -2: any natural number
      break;
    }
    case OpCode::TEST: wr_addr = (long long)t_ds + p0; wr_val = cell((long long)t_ds + p1) == cell((long long)t_ds + p2) ? 0 : 1; break;
    case OpCode::CONST: wr_addr = (long long)t_ds + p0; wr_val = p1; break;
    case OpCode::JMP: exp_ip = (long long)ip + p0; break;
    case OpCode::JMPC: exp_ip = cell((long long)t_ds + p1) == 0 ? (long long)ip + p0 : ip + 1; break;
    case OpCode::PREPARE_EXEC: exp_m = m + p0; exp_d = d + 1; break;
    case OpCode::ARG: wr_addr = (long long)t_ds + p0; wr_val = cell((long long)u_ds + p1); break;
    case OpCode::EXEC: exp_ip = p0; break;
    case OpCode::RET:
      exp_ip = get("cex_t_ra"); exp_d = d - 1; exp_m = t_ds;
      wr_addr = (long long)u_ds + get("cex_t_rt"); wr_val = cell((long long)t_ds + p0);
      break;
  }
  EXPECT(ret == exp_ret, "return value %d, reference %d", (int)ret, (int)exp_ret);
  EXPECT(ip2 == exp_ip, "instruction pointer %d, reference %lld", ip2, exp_ip);
  EXPECT(m2 == exp_m, "data.size() %lld, reference %lld (C19: data = frames of live activations)", m2, exp_m);
  EXPECT(d2 == exp_d, "stack depth %lld, reference %lld", d2, exp_d);
  for (long long a = 0; a < m2 && a < (long long)before.size(); a++) {
    if (a == wr_addr) {
      if (wr_val == -2) EXPECT(data[a] >= 0, "word %lld = %d is not a natural number", a, data[a]);
      else EXPECT(data[a] == wr_val, "word %lld = %d, reference %lld", a, data[a], wr_val);
    } else
      EXPECT(data[a] == before[a], "word %lld changed from %d to %d but is outside the instruction's frame", a, before[a], data[a]);
  }
  for (long long a = before.size(); a < m2; a++) EXPECT(data[a] == 0, "fresh word %lld = %d, must be 0", a, data[a]);
  for (long long a = 0; a < m2; a++) EXPECT(data[a] >= 0, "word %lld = %d is negative (C20)", a, data[a]);
  if ((OpCode)op == OpCode::PREPARE_EXEC && d2 == d + 1) {
    VM::Activation &t = st.back();
    EXPECT(X::ds(t) == m && X::sz(t) == p0 && X::rt(t) == p2 && X::ra(t) == -1 && X::di(t) == p1,
           "new activation (%d,%d,%d,%d,%d), reference (%lld,%d,%d,-1,%d)", X::ds(t), X::sz(t), X::rt(t), X::ra(t), X::di(t), m, p0, p2, p1);
  }
  if ((OpCode)op == OpCode::EXEC && d2 >= 1) EXPECT(X::ra(st.back()) == ip + 1, "return address %d, reference %d", X::ra(st.back()), ip + 1);
  // frame invariant after the step
  long long end = 0;
  for (long long k = 0; k < d2; k++) {
    EXPECT(X::ds(st[k]) == end, "activation %lld starts at %d, frames must be contiguous (expected %lld)", k, X::ds(st[k]), end);
    end = (long long)X::ds(st[k]) + X::sz(st[k]);
  }
  EXPECT(end == m2, "data.size() %lld != end of the top frame %lld", m2, end);
  printf(mismatches ? "REPLAY: real VM disagrees with the reference step (%d mismatches)\n" : "REPLAY: real VM agrees with the reference step\n", mismatches);
  return mismatches ? 3 : 0;
}
